; ModuleID = 'autocfg_e6d272dfadaf8109_0.d29c7d655c75b2f1-cgu.0'
source_filename = "autocfg_e6d272dfadaf8109_0.d29c7d655c75b2f1-cgu.0"
target datalayout = "e-m:e-p270:32:32-p271:32:32-p272:64:64-i64:64-i128:128-f80:128-n8:16:32:64-S128"
target triple = "x86_64-unknown-linux-gnu"

!llvm.module.flags = !{!0, !1}
!llvm.ident = !{!2}

!0 = !{i32 8, !"PIC Level", i32 2}
!1 = !{i32 2, !"RtLibUseGOT", i32 1}
!2 = !{!"rustc version 1.95.0 (59807616e 2026-04-14)"}
