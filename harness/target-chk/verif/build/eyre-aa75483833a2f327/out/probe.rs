
    #![allow(dead_code)]

    #[track_caller]
    fn foo() {
        let _location = std::panic::Location::caller();
    }
