//! Shared plumbing: evidence files, known findings, violation reporting, panic capture.
use serde_json::{json, Value};
use std::cell::RefCell;
use std::collections::BTreeMap;
use std::path::{Path, PathBuf};
use std::sync::atomic::{AtomicUsize, Ordering};
use std::time::Instant;

pub fn verif_dir() -> PathBuf {
    if let Ok(d) = std::env::var("VERIF_DIR") {
        return PathBuf::from(d);
    }
    // <verif>/harness/target/verif/splmc  -> <verif>
    let exe = std::env::current_exe().expect("current_exe");
    let mut p = exe.as_path();
    for _ in 0..4 {
        p = p.parent().expect("exe path too short");
    }
    p.to_path_buf()
}

#[derive(Clone, Copy, PartialEq, Eq, Debug)]
pub enum Tier {
    Quick,
    Thorough,
}
impl Tier {
    pub fn name(self) -> &'static str {
        match self {
            Tier::Quick => "quick",
            Tier::Thorough => "thorough",
        }
    }
    pub fn pick<T>(self, q: T, t: T) -> T {
        match self {
            Tier::Quick => q,
            Tier::Thorough => t,
        }
    }
}

/// One failing case of a check.
#[derive(Clone, Debug)]
pub struct Failure {
    /// finding key: names the *class of input* (generator vocabulary); a failure whose key
    /// is listed in KNOWN_FINDINGS is reported as KNOWN-FINDING, any other as VIOLATION.
    pub key: String,
    /// replayable description of the case (check-specific JSON)
    pub case: Value,
    /// human readable expected-vs-actual
    pub detail: String,
}

// ------------------------------------------------------------------------------------------
// panic capture
// ------------------------------------------------------------------------------------------
thread_local! {
    static LAST_PANIC: RefCell<Option<String>> = const { RefCell::new(None) };
    static QUIET: std::cell::Cell<bool> = const { std::cell::Cell::new(false) };
}
pub static PANICS_SEEN: AtomicUsize = AtomicUsize::new(0);

pub fn install_panic_hook() {
    let default = std::panic::take_hook();
    std::panic::set_hook(Box::new(move |info| {
        let loc = info
            .location()
            .map(|l| format!("{}:{}", l.file(), l.line()))
            .unwrap_or_else(|| "?".into());
        let msg = if let Some(s) = info.payload().downcast_ref::<&str>() {
            s.to_string()
        } else if let Some(s) = info.payload().downcast_ref::<String>() {
            s.clone()
        } else {
            "<non-string panic>".to_string()
        };
        PANICS_SEEN.fetch_add(1, Ordering::Relaxed);
        LAST_PANIC.with(|p| *p.borrow_mut() = Some(format!("{} @ {}", msg, loc)));
        if !QUIET.with(|q| q.get()) {
            default(info);
        }
    }));
}

/// Run `f`, converting a panic of the code under test into `Err("<message> @ <file:line>")`.
pub fn guarded<T>(f: impl FnOnce() -> T) -> Result<T, String> {
    let prev = QUIET.with(|q| q.replace(true));
    LAST_PANIC.with(|p| *p.borrow_mut() = None);
    let r = std::panic::catch_unwind(std::panic::AssertUnwindSafe(f));
    QUIET.with(|q| q.set(prev));
    match r {
        Ok(v) => Ok(v),
        Err(_) => Err(LAST_PANIC
            .with(|p| p.borrow_mut().take())
            .unwrap_or_else(|| "panic (no message)".into())),
    }
}

/// Panic site with numbers removed and the path made repo-relative: stable under line shifts.
pub fn panic_site(msg: &str) -> String {
    let (m, loc) = msg.rsplit_once(" @ ").unwrap_or((msg, "?"));
    let file = loc.rsplit_once(':').map(|x| x.0).unwrap_or(loc);
    let file = file.trim_start_matches("/repo/");
    let m: String = m
        .chars()
        .map(|c| if c.is_ascii_digit() { '#' } else { c })
        .collect();
    let mut m2 = String::new();
    let mut last_hash = false;
    for c in m.chars() {
        if c == '#' {
            if !last_hash {
                m2.push('#');
            }
            last_hash = true;
        } else {
            last_hash = false;
            m2.push(c);
        }
    }
    let m2: String = m2.lines().next().unwrap_or("").chars().take(80).collect();
    format!("{}|{}", file, m2.trim())
}

// ------------------------------------------------------------------------------------------
// known findings
// ------------------------------------------------------------------------------------------
#[derive(Default, Debug)]
pub struct Known {
    /// key -> description
    pub findings: BTreeMap<String, String>,
    pub fixed: Vec<String>,
}

/// `/verif/KNOWN_FINDINGS.txt`, one entry per line:
///   finding: property=C01 key=<key without blanks> <free text>
///   fixed: property=C07 <commit> <free text>
pub fn load_known(property: &str) -> Known {
    let mut k = Known::default();
    let path = verif_dir().join("KNOWN_FINDINGS.txt");
    let Ok(text) = std::fs::read_to_string(&path) else {
        return k;
    };
    for line in text.lines() {
        let line = line.trim();
        if let Some(rest) = line.strip_prefix("finding:") {
            let rest = rest.trim();
            let mut it = rest.splitn(3, ' ');
            let p = it.next().unwrap_or("");
            let key = it.next().unwrap_or("");
            let desc = it.next().unwrap_or("");
            if p == format!("property={}", property) {
                if let Some(key) = key.strip_prefix("key=") {
                    k.findings.insert(key.to_string(), desc.to_string());
                }
            }
        } else if let Some(rest) = line.strip_prefix("fixed:") {
            if rest.trim().starts_with(&format!("property={}", property)) {
                k.fixed.push(rest.trim().to_string());
            }
        }
    }
    k
}

// ------------------------------------------------------------------------------------------
// evidence + verdict
// ------------------------------------------------------------------------------------------
pub struct Report {
    pub property: String,
    pub tier: Tier,
    pub start: Instant,
    pub states: u64,
    pub transitions: u64,
    pub traces_validated: u64,
    pub evaluations: u64,
    pub distinct_nontrivial: u64,
    pub rule: String,
    pub samples: Vec<Value>,
    pub exhaustive: bool,
    pub bounds: Value,
    pub extra: BTreeMap<String, Value>,
    pub assumptions: Vec<String>,
    pub failures: Vec<Failure>,
    pub machinery_errors: Vec<String>,
}

impl Report {
    pub fn new(property: &str, tier: Tier) -> Self {
        Report {
            property: property.to_string(),
            tier,
            start: Instant::now(),
            states: 0,
            transitions: 0,
            traces_validated: 0,
            evaluations: 0,
            distinct_nontrivial: 0,
            rule: String::new(),
            samples: vec![],
            exhaustive: true,
            bounds: json!({}),
            extra: BTreeMap::new(),
            assumptions: vec![],
            failures: vec![],
            machinery_errors: vec![],
        }
    }

    pub fn sample(&mut self, v: Value) {
        if self.samples.len() < 12 {
            self.samples.push(v);
        }
    }

    /// Writes evidence, prints verdict lines, returns the process exit code.
    pub fn finish(mut self) -> i32 {
        let known = load_known(&self.property);
        let dir = verif_dir();
        // group failures by key
        let mut by_key: BTreeMap<String, Vec<&Failure>> = BTreeMap::new();
        for f in &self.failures {
            by_key.entry(f.key.clone()).or_default().push(f);
        }
        let mut violations = 0usize;
        let mut known_hits: BTreeMap<String, usize> = BTreeMap::new();
        let mut out_lines = vec![];
        let replay_dir = dir.join("replays").join(&self.property);
        for (key, fs) in &by_key {
            if known.findings.contains_key(key) {
                known_hits.insert(key.clone(), fs.len());
                out_lines.push(format!(
                    "KNOWN-FINDING: property={} {} ({} failing case(s) this run) {}",
                    self.property,
                    key,
                    fs.len(),
                    known.findings[key]
                ));
            } else {
                violations += fs.len();
                let _ = std::fs::create_dir_all(&replay_dir);
                // smallest case first: shortest serialisation
                let f = fs
                    .iter()
                    .min_by_key(|f| f.case.to_string().len())
                    .unwrap();
                let fname = format!("{}.json", sanitize(key));
                let path = replay_dir.join(fname);
                let doc = json!({
                    "property": self.property,
                    "key": key,
                    "case": f.case,
                    "detail": f.detail,
                    "failing_cases_with_this_key": fs.len(),
                });
                let _ = std::fs::write(&path, serde_json::to_string_pretty(&doc).unwrap());
                out_lines.push(format!(
                    "VIOLATION property={} replay={}",
                    self.property,
                    path.display()
                ));
                out_lines.push(format!(
                    "  key={} cases={} detail={}",
                    key,
                    fs.len(),
                    truncate(&f.detail, 400)
                ));
            }
        }
        let wall = self.start.elapsed().as_secs_f64();
        let mut coverage = serde_json::Map::new();
        coverage.insert("states".into(), json!(self.states.max(1)));
        coverage.insert("transitions".into(), json!(self.transitions.max(1)));
        coverage.insert(
            "traces_validated_against_impl".into(),
            json!(self.traces_validated),
        );
        coverage.insert("evaluations".into(), json!(self.evaluations.max(1)));
        coverage.insert(
            "distinct_nontrivial".into(),
            json!(self.distinct_nontrivial),
        );
        coverage.insert("rule".into(), json!(self.rule));
        if self.samples.is_empty() {
            self.samples.push(json!("(no sample recorded)"));
        }
        coverage.insert("samples".into(), json!(self.samples));
        if crate::sched::ANY_CAPPED.load(Ordering::SeqCst) {
            self.exhaustive = false;
            coverage.insert("caps_hit".into(), json!("a schedule exploration hit its execution/wall cap; everything below the cap was covered"));
        }
        coverage.insert("exhaustive".into(), json!(self.exhaustive));
        coverage.insert("bounds".into(), self.bounds.clone());
        coverage.insert(
            "known_finding_hits".into(),
            json!(known_hits),
        );
        coverage.insert(
            "failing_cases_total".into(),
            json!(self.failures.len()),
        );
        for (k, v) in &self.extra {
            coverage.insert(k.clone(), v.clone());
        }
        let (repeated, confirmed) = crate::procdrv::confirmation_counts();
        if repeated > 0 {
            coverage.insert(
                "process_runs_repeated_alone_after_missing_a_wall_clock_limit".into(),
                json!({"repeated": repeated, "missed_the_longer_limit_again": confirmed}),
            );
        }
        let seed: i64 = std::env::var("VERIF_SEED")
            .ok()
            .and_then(|s| s.parse().ok())
            .unwrap_or(0);
        let ev = json!({
            "property_id": self.property,
            "tier": self.tier.name(),
            "seed": seed,
            "level": "model_checking",
            "coverage": Value::Object(coverage),
            "assumptions": self.assumptions,
            "wall_s": wall,
            "violations": violations,
        });
        let evdir = dir.join("evidence");
        let _ = std::fs::create_dir_all(&evdir);
        let evpath = evdir.join(format!("{}.json", self.property));
        if let Err(e) = std::fs::write(&evpath, serde_json::to_string_pretty(&ev).unwrap() + "\n") {
            eprintln!("MACHINERY-ERROR cannot write evidence {}: {}", evpath.display(), e);
            return 2;
        }
        for l in &out_lines {
            println!("{}", l);
        }
        println!(
            "{} {}: states={} transitions={} evaluations={} distinct_nontrivial={} exhaustive={} failing={} violations={} wall={:.1}s",
            self.property,
            self.tier.name(),
            self.states,
            self.transitions,
            self.evaluations,
            self.distinct_nontrivial,
            self.exhaustive,
            self.failures.len(),
            violations,
            wall
        );
        if !self.machinery_errors.is_empty() {
            for m in &self.machinery_errors {
                println!("MACHINERY-ERROR {}", m);
            }
            return 2;
        }
        if violations > 0 {
            1
        } else {
            0
        }
    }
}

pub fn sanitize(s: &str) -> String {
    let t: String = s
        .chars()
        .map(|c| if c.is_ascii_alphanumeric() || c == '-' || c == '_' || c == '.' { c } else { '_' })
        .collect();
    t.chars().take(120).collect()
}

pub fn truncate(s: &str, n: usize) -> String {
    if s.chars().count() <= n {
        s.to_string()
    } else {
        s.chars().take(n).collect::<String>() + "…"
    }
}

pub fn read_json(path: &Path) -> Result<Value, String> {
    let t = std::fs::read_to_string(path).map_err(|e| format!("{}: {}", path.display(), e))?;
    serde_json::from_str(&t).map_err(|e| format!("{}: {}", path.display(), e))
}

/// Build a rayon pool whose workers have deep stacks (the nom parser recurses per nesting level).
pub fn init_pool() {
    let n = std::thread::available_parallelism().map(|n| n.get()).unwrap_or(4);
    let _ = rayon::ThreadPoolBuilder::new()
        .num_threads(n)
        .stack_size(256 << 20)
        .build_global();
}

/// Cap on failures kept in memory per check (all are *counted* by the checks themselves).
pub const MAX_KEPT_FAILURES: usize = 20_000;

// ------------------------------------------------------------------------------------------
// watchdog: a case that does not terminate is a violation (hang), not a stuck check
// ------------------------------------------------------------------------------------------
use std::sync::Mutex;
/// (start, property, case, limit in s, CPU clock of the working thread, CPU time at start in ns)
type WatchEntry = (Instant, String, String, u64, libc::clockid_t, u64);
static WATCH: Mutex<Vec<Option<WatchEntry>>> = Mutex::new(Vec::new());

fn cpu_ns(clock: libc::clockid_t) -> u64 {
    let mut ts = libc::timespec { tv_sec: 0, tv_nsec: 0 };
    if unsafe { libc::clock_gettime(clock, &mut ts) } != 0 {
        return 0;
    }
    ts.tv_sec as u64 * 1_000_000_000 + ts.tv_nsec as u64
}

fn own_cpu_clock() -> libc::clockid_t {
    let mut c: libc::clockid_t = libc::CLOCK_THREAD_CPUTIME_ID;
    unsafe { libc::pthread_getcpuclockid(libc::pthread_self(), &mut c) };
    c
}

/// A case counts as not terminating when its thread has *consumed* `limit` seconds of CPU time
/// (a loop), or when `WALL_FACTOR x limit` seconds of wall time have passed (blocked for good).
/// Wall time alone at the small limit is not a verdict: on a machine that is over-subscribed by
/// other jobs a trivial case was once descheduled long enough to exceed 60 s of wall time.
const WALL_FACTOR: u64 = 10;
static WATCHDOG_STARTED: std::sync::atomic::AtomicBool = std::sync::atomic::AtomicBool::new(false);
static DEFAULT_LIMIT: AtomicUsize = AtomicUsize::new(120);
thread_local! {
    static WATCH_SLOT: std::cell::Cell<usize> = const { std::cell::Cell::new(usize::MAX) };
}

pub struct WatchGuard(usize);
impl Drop for WatchGuard {
    fn drop(&mut self) {
        if self.0 == usize::MAX {
            return;
        }
        if let Ok(mut w) = WATCH.lock() {
            w[self.0] = None;
        }
    }
}

/// Register the case the current thread is working on. `case` is a JSON string used as the
/// replay file when the case exceeds the limit.
pub fn watch(property: &str, case: impl FnOnce() -> String) -> WatchGuard {
    watch_limit(property, DEFAULT_LIMIT.load(Ordering::Relaxed) as u64, case)
}

/// Like `watch`, with an own time limit for this case. Nested watches on one thread keep the
/// outer entry (the outer case description is the more useful one).
pub fn watch_limit(property: &str, limit_s: u64, case: impl FnOnce() -> String) -> WatchGuard {
    let slot = WATCH_SLOT.with(|s| {
        if s.get() == usize::MAX {
            let mut w = WATCH.lock().unwrap();
            w.push(None);
            s.set(w.len() - 1);
        }
        s.get()
    });
    let mut w = WATCH.lock().unwrap();
    if w[slot].is_some() {
        // nested: leave the outer entry in place; the guard of the inner one must not clear it
        return WatchGuard(usize::MAX);
    }
    let clock = own_cpu_clock();
    w[slot] = Some((Instant::now(), property.to_string(), case(), limit_s, clock, cpu_ns(clock)));
    WatchGuard(slot)
}

/// property of the running check (set by install_exit_guard)
pub fn current_property() -> String {
    GUARD_PROPERTY.lock().map(|g| g.clone()).unwrap_or_default()
}

pub fn start_watchdog(limit_s: u64) {
    DEFAULT_LIMIT.store(limit_s as usize, Ordering::Relaxed);
    if WATCHDOG_STARTED.swap(true, Ordering::SeqCst) {
        return;
    }
    std::thread::spawn(move || loop {
        std::thread::sleep(std::time::Duration::from_millis(500));
        let hit = {
            let w = WATCH.lock().unwrap();
            // the CPU clocks are read under the lock: an entry is cleared by its own thread
            // (under the same lock) before that thread can end
            w.iter()
                .flatten()
                .find(|(t, _, _, l, clock, cpu0)| {
                    let wall = t.elapsed().as_secs();
                    wall >= *l && (wall >= WALL_FACTOR * *l || cpu_ns(*clock).saturating_sub(*cpu0) / 1_000_000_000 >= *l)
                })
                .map(|(t, p, c, l, clock, cpu0)| (p.clone(), c.clone(), *l, t.elapsed().as_secs(), cpu_ns(*clock).saturating_sub(*cpu0) / 1_000_000_000))
        };
        if let Some((property, case, limit_s, wall_s, cpu_s)) = hit {
            hang_exit(
                &property,
                &case,
                &format!("case did not terminate: {} s of CPU time consumed by its thread, {} s of wall time (limit {} s CPU, {} s wall)", cpu_s, wall_s, limit_s, WALL_FACTOR * limit_s),
            );
        }
    });
}

/// The case the current thread has registered with `watch` (property, case JSON).
pub fn current_case() -> Option<(String, String)> {
    let slot = WATCH_SLOT.with(|s| s.get());
    if slot == usize::MAX {
        return None;
    }
    WATCH.lock().ok().and_then(|w| w.get(slot).cloned().flatten()).map(|e| (e.1, e.2))
}

/// Writes `replays/<property>/hang.json`, prints the VIOLATION line and ends the check.
pub fn hang_exit(property: &str, case: &str, detail: &str) -> ! {
    let dir = verif_dir().join("replays").join(property);
    let _ = std::fs::create_dir_all(&dir);
    let path = dir.join("hang.json");
    let doc = format!("{{\"property\": \"{}\", \"key\": \"hang\", \"case\": {}, \"detail\": {}}}", property, case, serde_json::Value::String(detail.to_string()));
    let _ = std::fs::write(&path, doc);
    println!("VIOLATION property={} replay={}", property, path.display());
    println!("  key=hang: {}", detail);
    use std::io::Write;
    let _ = std::io::stdout().flush();
    exit_process(1)
}

// ------------------------------------------------------------------------------------------
// exit guard: the code under test must never terminate the checking process behind its back
// (std::process::exit inside an in-process run would otherwise look like a clean pass)
// ------------------------------------------------------------------------------------------
static EXIT_EXPECTED: std::sync::atomic::AtomicBool = std::sync::atomic::AtomicBool::new(false);
static GUARD_PROPERTY: Mutex<String> = Mutex::new(String::new());

extern "C" fn exit_guard() {
    if EXIT_EXPECTED.load(Ordering::SeqCst) {
        return;
    }
    let property = GUARD_PROPERTY.lock().map(|g| g.clone()).unwrap_or_default();
    let cases: Vec<String> = WATCH
        .lock()
        .map(|w| w.iter().flatten().map(|(_, _, c, _, _, _)| c.clone()).collect())
        .unwrap_or_default();
    let dir = verif_dir().join("replays").join(&property);
    let _ = std::fs::create_dir_all(&dir);
    let path = dir.join("process-exit-inside-in-process-run.json");
    let doc = format!(
        "{{\"property\": \"{}\", \"key\": \"process-exit-inside-in-process-run\", \"cases_in_flight\": [{}], \"detail\": \"std::process::exit was called by the code under test during an in-process run (no history explored in process is allowed to exit the process)\"}}",
        property,
        cases.join(", ")
    );
    let _ = std::fs::write(&path, doc);
    println!("VIOLATION property={} replay={}", property, path.display());
    println!("  key=process-exit-inside-in-process-run: the code under test called std::process::exit while it was executed in process");
    use std::io::Write;
    let _ = std::io::stdout().flush();
    unsafe { libc::_exit(1) }
}

pub fn install_exit_guard(property: &str) {
    *GUARD_PROPERTY.lock().unwrap() = property.to_string();
    unsafe {
        libc::atexit(exit_guard);
    }
}

/// The only way the checker itself leaves the process.
pub fn exit_process(code: i32) -> ! {
    EXIT_EXPECTED.store(true, Ordering::SeqCst);
    std::process::exit(code)
}
