//! E-SCHED: stateless exploration of the real `run()` under shuttle with an own scheduler that
//! implements iterative preemption bounding (CHESS): depth-first search over the decision
//! stack; at every decision the running task first, then ascending task ids; choosing another
//! task while the current one is still runnable costs one preemption; every execution runs to
//! completion.
use crate::common::guarded;
use crate::session::{parse_frames, Outcome};
use shuttle::scheduler::{Schedule, Scheduler, Task, TaskId};
use std::collections::BTreeMap;
use std::sync::{Arc, Mutex};

#[derive(Clone, Debug)]
struct Level {
    choices: Vec<usize>,
    idx: usize,
    cost_before: usize,
    cur_runnable: bool,
}

#[derive(Default, Debug, Clone)]
pub struct SchedStats {
    pub executions: u64,
    pub decisions: u64,
    pub max_depth: usize,
    /// task ids chosen in the execution that is running / ran last
    pub current: Vec<usize>,
    pub divergence: Option<String>,
    /// the exploration was cut off by the execution / wall cap: NOT exhaustive
    pub capped: bool,
}

pub struct BoundedDfs {
    levels: Vec<Level>,
    step: usize,
    bound: usize,
    started: bool,
    stats: Arc<Mutex<SchedStats>>,
    max_executions: u64,
    deadline: std::time::Instant,
    /// delay bounding (Emmi/Qadeer/Rakamaric): every deviation from the default choice costs
    /// one, also when the running task is blocked - polynomially many executions, used for long
    /// sessions where the non-preemptive choices alone are exponentially many
    delay_bounded: bool,
}

pub static ANY_CAPPED: std::sync::atomic::AtomicBool = std::sync::atomic::AtomicBool::new(false);
pub const MAX_EXECUTIONS_PER_EXPLORATION: u64 = 3_000_000;
pub const MAX_SECONDS_PER_EXPLORATION: u64 = 240;

impl BoundedDfs {
    pub fn new(bound: usize, stats: Arc<Mutex<SchedStats>>, delay_bounded: bool) -> Self {
        BoundedDfs {
            delay_bounded,
            levels: vec![],
            step: 0,
            bound,
            started: false,
            stats,
            max_executions: MAX_EXECUTIONS_PER_EXPLORATION,
            deadline: std::time::Instant::now() + std::time::Duration::from_secs(MAX_SECONDS_PER_EXPLORATION),
        }
    }
    fn cost(&self, l: &Level, idx: usize) -> usize {
        l.cost_before + usize::from((l.cur_runnable || self.delay_bounded) && idx > 0)
    }
}

impl Scheduler for BoundedDfs {
    fn new_execution(&mut self) -> Option<Schedule> {
        {
            let mut s = self.stats.lock().unwrap();
            if s.executions >= self.max_executions || std::time::Instant::now() > self.deadline {
                s.capped = true;
                return None;
            }
        }
        if self.started {
            // backtrack: deepest level with an untried alternative within the bound
            loop {
                let Some(l) = self.levels.last() else { return None };
                let mut next = None;
                for j in l.idx + 1..l.choices.len() {
                    if self.cost(l, j) <= self.bound {
                        next = Some(j);
                        break;
                    }
                }
                match next {
                    Some(j) => {
                        self.levels.last_mut().unwrap().idx = j;
                        break;
                    }
                    None => {
                        self.levels.pop();
                    }
                }
            }
        }
        self.started = true;
        self.step = 0;
        let mut s = self.stats.lock().unwrap();
        s.executions += 1;
        s.current.clear();
        Some(Schedule::new(0))
    }

    fn next_task(&mut self, runnable: &[&Task], current: Option<TaskId>, _is_yielding: bool) -> Option<TaskId> {
        let k = self.step;
        self.step += 1;
        let ids: Vec<usize> = runnable.iter().map(|t| usize::from(t.id())).collect();
        if k == self.levels.len() {
            let cur = current.map(usize::from);
            let cur_runnable = cur.map(|c| ids.contains(&c)).unwrap_or(false);
            let mut choices = vec![];
            if cur_runnable {
                choices.push(cur.unwrap());
            }
            let mut rest: Vec<usize> = ids.iter().cloned().filter(|i| Some(*i) != cur || !cur_runnable).collect();
            rest.sort();
            choices.extend(rest);
            let cost_before = self.levels.last().map(|l| self.cost(l, l.idx)).unwrap_or(0);
            self.levels.push(Level { choices, idx: 0, cost_before, cur_runnable });
        }
        let l = &self.levels[k];
        let choice = l.choices[l.idx];
        let mut s = self.stats.lock().unwrap();
        s.decisions += 1;
        s.max_depth = s.max_depth.max(k + 1);
        s.current.push(choice);
        if !ids.contains(&choice) {
            s.divergence = Some(format!("replay divergence at step {}: task {} not runnable (runnable {:?})", k, choice, ids));
            return None;
        }
        Some(TaskId::from(choice))
    }

    fn next_u64(&mut self) -> u64 {
        0
    }
}

/// Scheduler that replays one recorded schedule (list of task ids), then runs the current task.
pub struct Replay {
    sched: Vec<usize>,
    step: usize,
    done: bool,
}
impl Scheduler for Replay {
    fn new_execution(&mut self) -> Option<Schedule> {
        if self.done {
            return None;
        }
        self.done = true;
        self.step = 0;
        Some(Schedule::new(0))
    }
    fn next_task(&mut self, runnable: &[&Task], current: Option<TaskId>, _: bool) -> Option<TaskId> {
        let k = self.step;
        self.step += 1;
        let ids: Vec<usize> = runnable.iter().map(|t| usize::from(t.id())).collect();
        match self.sched.get(k) {
            Some(c) if ids.contains(c) => Some(TaskId::from(*c)),
            Some(_) => None,
            None => current.filter(|c| ids.contains(&usize::from(*c))).or(Some(TaskId::from(ids[0]))),
        }
    }
    fn next_u64(&mut self) -> u64 {
        0
    }
}

#[derive(Clone, Debug)]
pub struct EnvConfig {
    /// stdin chunks, one per read
    pub chunks: Vec<Vec<u8>>,
    /// deliver the chunks by a client task (reads may find no data yet) instead of up front
    pub feeder_task: bool,
    /// clamp of the mpsc channel capacities (None = the real 32)
    pub clamp: Option<usize>,
    /// stdout pipe capacity in bytes with a draining client task (None = unbounded)
    pub stdout_cap: Option<usize>,
    /// delay bounding instead of preemption bounding
    pub delay_bounded: bool,
}

#[derive(Default, Debug)]
pub struct Collected {
    pub outcomes: BTreeMap<Vec<u8>, (u64, Vec<usize>, Option<String>)>,
}

fn one_execution(env: &EnvConfig) -> Outcome {
    vtokio::verif::reset();
    vtokio::verif::set_controlled(true);
    vtokio::verif::set_clamp(env.clamp);
    vtokio::verif::set_stdout_capacity(env.stdout_cap);
    let chunks = env.chunks.clone();
    let feeder = env.feeder_task;
    let drain = env.stdout_cap.is_some();
    if !feeder {
        for c in &chunks {
            vtokio::verif::stdin_push(c.clone());
        }
        vtokio::verif::stdin_close();
    }
    let (result, raw) = shuttle::future::block_on(async move {
        let f = if feeder {
            Some(shuttle::future::spawn(async move {
                for c in chunks {
                    vtokio::verif::vyield().await;
                    vtokio::verif::stdin_push(c);
                }
                vtokio::verif::vyield().await;
                vtokio::verif::stdin_close();
            }))
        } else {
            None
        };
        let d = if drain {
            Some(shuttle::future::spawn(async move {
                // the client reads whenever output is available (blocking wait, no spinning)
                while vtokio::verif::stdout_wait_data().await {
                    vtokio::verif::vyield().await;
                    vtokio::verif::stdout_drain_all();
                }
            }))
        } else {
            None
        };
        let server = lspcore::server::LanguageServer::setup(None, lsp_types::ServerCapabilities::default());
        let r = server.run().await;
        // the instant run() returns is when the real runtime is dropped: snapshot the output
        let raw = vtokio::verif::stdout_snapshot();
        vtokio::verif::stdout_drain_stop();
        if let Some(f) = f {
            let _ = f.await;
        }
        if let Some(d) = d {
            let _ = d.await;
        }
        (r.map_err(|e| format!("{:#}", e)), raw)
    });
    vtokio::verif::set_controlled(false);
    vtokio::verif::set_clamp(None);
    let (frames, frame_error) = match parse_frames(&raw) {
        Ok(f) => (f, None),
        Err(e) => (vec![], Some(e)),
    };
    Outcome { raw, frames, frame_error, error: result.err().map(|e| format!("run() returned Err: {}", e)) }
}

pub struct Exploration {
    pub stats: SchedStats,
    /// distinct outputs with (count, first schedule, first error)
    pub outcomes: BTreeMap<Vec<u8>, (u64, Vec<usize>, Option<String>)>,
    /// engine-level failure: deadlock / panic inside an execution (message, schedule)
    pub abort: Option<(String, Vec<usize>)>,
}

fn config() -> shuttle::Config {
    let mut c = shuttle::Config::new();
    c.stack_size = 8 << 20;
    c.failure_persistence = shuttle::FailurePersistence::None;
    c.max_steps = shuttle::MaxSteps::FailAfter(2_000_000);
    c.silence_warnings = true;
    c
}

/// Explore all schedules of one environment with at most `bound` preemptions.
pub fn explore(env: &EnvConfig, bound: usize) -> Exploration {
    let _g = crate::common::watch_limit(&crate::common::current_property(), MAX_SECONDS_PER_EXPLORATION + 160, || {
        serde_json::json!({"exploration": {"bound": bound, "chunks": env.chunks.len(), "bytes": env.chunks.iter().map(|c| c.len()).sum::<usize>(), "clamp": env.clamp, "stdout_cap": env.stdout_cap}}).to_string()
    });
    let stats = Arc::new(Mutex::new(SchedStats::default()));
    let collected: Arc<Mutex<Collected>> = Arc::new(Mutex::new(Collected::default()));
    let sched = BoundedDfs::new(bound, stats.clone(), env.delay_bounded);
    let env2 = env.clone();
    let (st2, col2) = (stats.clone(), collected.clone());
    let r = guarded(move || {
        let runner = shuttle::Runner::new(sched, config());
        runner.run(move || {
            let o = one_execution(&env2);
            let cur = st2.lock().unwrap().current.clone();
            let mut c = col2.lock().unwrap();
            let e = c.outcomes.entry(o.raw.clone()).or_insert((0, cur, o.error.clone().or(o.frame_error.clone())));
            e.0 += 1;
        });
    });
    vtokio::verif::set_controlled(false);
    vtokio::verif::set_clamp(None);
    let stats = stats.lock().unwrap().clone();
    if stats.capped {
        ANY_CAPPED.store(true, std::sync::atomic::Ordering::SeqCst);
    }
    let outcomes = std::mem::take(&mut collected.lock().unwrap().outcomes);
    let abort = match r {
        Ok(()) => stats.divergence.clone().map(|d| (d, stats.current.clone())),
        Err(p) => Some((p, stats.current.clone())),
    };
    Exploration { stats, outcomes, abort }
}

pub fn replay(env: &EnvConfig, schedule: &[usize]) -> Result<Outcome, String> {
    let env2 = env.clone();
    let out: Arc<Mutex<Option<Outcome>>> = Arc::new(Mutex::new(None));
    let o2 = out.clone();
    let sched = Replay { sched: schedule.to_vec(), step: 0, done: false };
    let r = guarded(move || {
        let runner = shuttle::Runner::new(sched, config());
        runner.run(move || {
            let o = one_execution(&env2);
            *o2.lock().unwrap() = Some(o);
        });
    });
    vtokio::verif::set_controlled(false);
    r?;
    let o = out.lock().unwrap().take();
    o.ok_or_else(|| "no outcome".to_string())
}
