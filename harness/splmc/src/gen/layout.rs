//! Layouts of one token sequence and comment placements (DESIGN 3.1).
use super::ast::Tok;

#[derive(Clone, Copy, Debug, PartialEq, Eq, Hash)]
pub enum Layout {
    /// separators only where the lexer needs them
    Minimal,
    /// one blank between any two tokens
    Spaces,
    /// one token per line, leading and trailing blank line
    Lines,
    /// tabs and multiple blanks
    Tabs,
    /// one token per line with CRLF line ends
    Crlf,
    /// pretty: declarations/statements on own lines, 2-space indentation by nesting level
    Pretty,
    /// one token per line with lone CR line ends (a comment still ends with LF)
    Cr,
}

pub const ALL_LAYOUTS: &[Layout] = &[
    Layout::Minimal,
    Layout::Spaces,
    Layout::Lines,
    Layout::Tabs,
    Layout::Crlf,
    Layout::Pretty,
    Layout::Cr,
];

#[derive(Clone, Debug, Default)]
pub struct Rendered {
    pub text: String,
    /// byte range of every (comment-free) token
    pub tok_ranges: Vec<(usize, usize)>,
    /// index of every (comment-free) token in the token vector *with* comment tokens
    pub real_index: Vec<usize>,
    /// (gap, byte start, byte end excluding the line end, text after `//`)
    pub comments: Vec<(usize, usize, usize, String)>,
    /// number of tokens incl. comments (without Eof)
    pub real_len: usize,
}

fn word(c: char) -> bool {
    c.is_ascii_alphanumeric() || c == '_'
}

pub fn needs_space(a: &str, b: &str) -> bool {
    let (Some(x), Some(y)) = (a.chars().last(), b.chars().next()) else {
        return false;
    };
    (word(x) && word(y))
        || (matches!(x, '<' | '>' | ':') && y == '=')
        || (x == '/' && y == '/')
        // a quote directly after a word char is fine; a closing quote followed by a quote is not
        || (x == '\'' && y == '\'')
}

/// `comment_gaps`: sorted gap indexes (gap g = in front of token g; g == toks.len() = after the
/// last token); `comment_text(g)` = text after `//` (no line end).
pub fn render(
    toks: &[Tok],
    layout: Layout,
    comment_gaps: &[usize],
    comment_text: &dyn Fn(usize) -> String,
) -> Rendered {
    let mut r = Rendered::default();
    let nl = match layout {
        Layout::Crlf => "\r\n",
        Layout::Cr => "\r",
        _ => "\n",
    };
    // a comment runs to the next LF whatever the layout's line end is
    let comment_nl = if layout == Layout::Cr { "\n" } else { nl };
    let mut text = String::new();
    match layout {
        Layout::Lines | Layout::Crlf | Layout::Cr => text.push_str(nl),
        Layout::Tabs => text.push_str(" \t"),
        _ => {}
    }
    let mut real = 0usize;
    let mut fresh_line = true; // nothing but white space on the current line so far
    let mut prev: Option<&str> = None;
    for g in 0..=toks.len() {
        if comment_gaps.contains(&g) {
            if !fresh_line && prev.is_some() {
                text.push(' ');
            }
            // a text with line breaks gives several comment lines (= several comment tokens)
            for line in comment_text(g).split('\n') {
                let start = text.len();
                text.push_str("//");
                text.push_str(line);
                let end = text.len();
                text.push_str(comment_nl);
                r.comments.push((g, start, end, line.to_string()));
                real += 1;
            }
            fresh_line = true;
            prev = None; // a line end separates anything
        }
        if g == toks.len() {
            break;
        }
        let t = &toks[g];
        // separator in front of token g
        if let Some(p) = prev {
            match layout {
                Layout::Minimal => {
                    if needs_space(p, &t.text) {
                        text.push(' ');
                    }
                }
                Layout::Spaces => text.push(' '),
                Layout::Lines | Layout::Crlf | Layout::Cr => {
                    text.push_str(nl);
                }
                Layout::Tabs => text.push_str(if g % 2 == 0 { "\t" } else { "   " }),
                Layout::Pretty => {
                    let newline = matches!(p, ";" | "{" | "}")
                        || (t.text == "}" )
                        || matches!(t.text.as_str(), "proc" | "type");
                    if newline && !(p == "}" && t.text == "else") {
                        text.push('\n');
                        for _ in 0..t.level.saturating_sub(if t.text == "}" { 0 } else { 0 }) {
                            text.push_str("  ");
                        }
                    } else if !(matches!(t.text.as_str(), ";" | "," | ")" | "]" | "[") || matches!(p, "(" | "[")) {
                        text.push(' ');
                    } else if needs_space(p, &t.text) {
                        text.push(' ');
                    }
                }
            }
        } else if fresh_line && layout == Layout::Pretty && g > 0 {
            for _ in 0..t.level {
                text.push_str("  ");
            }
        }
        let start = text.len();
        text.push_str(&t.text);
        r.tok_ranges.push((start, text.len()));
        r.real_index.push(real);
        real += 1;
        fresh_line = false;
        prev = Some(&t.text);
    }
    match layout {
        Layout::Lines | Layout::Crlf | Layout::Cr => text.push_str(nl),
        Layout::Tabs => text.push_str("\t \n"),
        Layout::Pretty => {
            if !toks.is_empty() {
                text.push('\n')
            }
        }
        _ => {}
    }
    r.real_len = real;
    r.text = text;
    r
}

/// The same rendering without anything behind its last token or comment
/// (the document ends with the last byte of the program).
pub fn tight(mut r: Rendered) -> Rendered {
    let end = r.tok_ranges.iter().map(|t| t.1).chain(r.comments.iter().map(|c| c.2)).max().unwrap_or(0);
    r.text.truncate(end);
    r
}

pub fn layout_by_name(n: &str) -> Option<Layout> {
    ALL_LAYOUTS.iter().cloned().find(|l| format!("{:?}", l) == n)
}

pub fn render_plain(toks: &[Tok], layout: Layout) -> Rendered {
    render(toks, layout, &[], &|_| String::new())
}
