//! Program families: contexts x focus (DESIGN 3.1).  A context is a program skeleton with one
//! hole; the focus is every derivation of the hole's non-terminal up to its token bound.
use super::ast::*;
use super::enumerate::*;
use std::sync::Arc;

pub fn tname(n: &str) -> RType {
    RType::Name(n.to_string())
}
pub fn arr(n: u32, b: RType) -> RType {
    RType::Array(Lit::Dec(n), Arc::new(b))
}
pub fn vname(n: &str) -> RVar {
    RVar::Name(n.to_string())
}
pub fn evar(n: &str) -> RExpr {
    RExpr::Var(vname(n))
}
pub fn eint(v: u32) -> RExpr {
    RExpr::Int(Lit::Dec(v))
}
pub fn bin(op: Op, a: RExpr, b: RExpr) -> RExpr {
    RExpr::Bin(op, Arc::new(a), Arc::new(b))
}
pub fn idx(v: RVar, e: RExpr) -> RVar {
    RVar::Index(Arc::new(v), Arc::new(e))
}

/// `type A = array [2] of int;`  `type M = array [3] of A;`
pub fn prelude_types() -> Vec<RDecl> {
    vec![
        RDecl::Type { name: "A".into(), ty: arr(2, tname("int")) },
        RDecl::Type { name: "M".into(), ty: arr(3, tname("A")) },
    ]
}

/// `proc q(x: int, ref y: int, ref z: A) { y := x; }`
pub fn proc_q() -> RDecl {
    RDecl::Proc {
        name: "q".into(),
        params: vec![
            RParam { is_ref: false, name: "x".into(), ty: tname("int") },
            RParam { is_ref: true, name: "y".into(), ty: tname("int") },
            RParam { is_ref: true, name: "z".into(), ty: tname("A") },
        ],
        vars: vec![],
        body: vec![RStmt::Assign(vname("y"), evar("x"))],
    }
}

/// second procedure with the *same local names* as main (forces collisions between scopes)
pub fn proc_r() -> RDecl {
    RDecl::Proc {
        name: "r".into(),
        params: vec![RParam { is_ref: true, name: "a".into(), ty: tname("A") }],
        vars: vec![RVarDecl { name: "i".into(), ty: tname("int") }],
        body: vec![RStmt::Assign(vname("i"), RExpr::Var(idx(vname("a"), eint(0))))],
    }
}

pub fn main_locals() -> Vec<RVarDecl> {
    vec![
        RVarDecl { name: "i".into(), ty: tname("int") },
        RVarDecl { name: "j".into(), ty: tname("int") },
        RVarDecl { name: "a".into(), ty: tname("A") },
        RVarDecl { name: "m".into(), ty: tname("M") },
    ]
}

pub fn main_with(body: Vec<RStmt>) -> RDecl {
    RDecl::Proc { name: "main".into(), params: vec![], vars: main_locals(), body }
}

#[derive(Clone, Copy, Debug, PartialEq, Eq)]
pub enum Placement {
    /// types, q, r, then main (targets declared before the use)
    MainLast,
    /// types, main, q, r (procedures declared after the use)
    MainMiddle,
}
pub const PLACEMENTS: &[Placement] = &[Placement::MainLast, Placement::MainMiddle];

pub fn program_with_main(body: Vec<RStmt>, pl: Placement) -> RProgram {
    let mut decls = prelude_types();
    match pl {
        Placement::MainLast => {
            decls.push(proc_q());
            decls.push(proc_r());
            decls.push(main_with(body));
        }
        Placement::MainMiddle => {
            decls.push(main_with(body));
            decls.push(proc_q());
            decls.push(proc_r());
        }
    }
    RProgram { decls }
}

#[derive(Clone, Copy, Debug, PartialEq, Eq)]
pub enum StmtCtx {
    Body,
    AfterEmpty,
    InBlock,
    IfBranch,
    ElseBranch,
    WhileBody,
    Nested2,
    BetweenStmts,
}
pub const STMT_CTXS: &[StmtCtx] = &[
    StmtCtx::Body,
    StmtCtx::AfterEmpty,
    StmtCtx::InBlock,
    StmtCtx::IfBranch,
    StmtCtx::ElseBranch,
    StmtCtx::WhileBody,
    StmtCtx::Nested2,
    StmtCtx::BetweenStmts,
];

fn cond() -> RExpr {
    bin(Op::Lst, evar("i"), eint(1))
}

/// Places statement `s` into the context; None when the result would not be a derivation
/// (an open `if` cannot be the then-branch of an if-else).
pub fn stmt_in_ctx(s: &RStmt, c: StmtCtx) -> Option<Vec<RStmt>> {
    let s = s.clone();
    Some(match c {
        StmtCtx::Body => vec![s],
        StmtCtx::AfterEmpty => vec![RStmt::Empty, s],
        StmtCtx::InBlock => vec![RStmt::Block(vec![s])],
        StmtCtx::IfBranch => vec![RStmt::If(cond(), Arc::new(s), None)],
        StmtCtx::ElseBranch => vec![RStmt::If(cond(), Arc::new(RStmt::Empty), Some(Arc::new(s)))],
        StmtCtx::WhileBody => vec![RStmt::While(cond(), Arc::new(s))],
        StmtCtx::Nested2 => vec![RStmt::While(
            cond(),
            Arc::new(RStmt::Block(vec![RStmt::If(cond(), Arc::new(RStmt::Empty), Some(Arc::new(s)))])),
        )],
        StmtCtx::BetweenStmts => vec![
            RStmt::Assign(vname("j"), eint(0)),
            s,
            RStmt::Call("q".into(), vec![evar("j"), evar("j"), evar("a")]),
        ],
    })
}

#[derive(Clone, Copy, Debug, PartialEq, Eq)]
pub enum ExprCtx {
    AssignRhs,
    IndexLhs,
    IndexRhs,
    Arg1,
    IfCond,
    WhileCond,
    Parens,
    UnderNeg,
    Operand,
}
pub const EXPR_CTXS: &[ExprCtx] = &[
    ExprCtx::AssignRhs,
    ExprCtx::IndexLhs,
    ExprCtx::IndexRhs,
    ExprCtx::Arg1,
    ExprCtx::IfCond,
    ExprCtx::WhileCond,
    ExprCtx::Parens,
    ExprCtx::UnderNeg,
    ExprCtx::Operand,
];

pub fn expr_in_ctx(e: &RExpr, c: ExprCtx) -> RStmt {
    let e = e.clone();
    match c {
        ExprCtx::AssignRhs => RStmt::Assign(vname("i"), e),
        ExprCtx::IndexLhs => RStmt::Assign(idx(vname("a"), e), eint(1)),
        ExprCtx::IndexRhs => RStmt::Assign(vname("i"), RExpr::Var(idx(vname("a"), e))),
        ExprCtx::Arg1 => RStmt::Call("q".into(), vec![e, evar("j"), evar("a")]),
        ExprCtx::IfCond => RStmt::If(e, Arc::new(RStmt::Empty), None),
        ExprCtx::WhileCond => RStmt::While(e, Arc::new(RStmt::Empty)),
        ExprCtx::Parens => RStmt::Assign(vname("i"), RExpr::Paren(Arc::new(e))),
        ExprCtx::UnderNeg => RStmt::Assign(vname("i"), RExpr::Neg(Arc::new(RExpr::Paren(Arc::new(e))))),
        // `j * ( E )`: the hole as a parenthesised operand
        ExprCtx::Operand => RStmt::Assign(vname("i"), bin(Op::Mul, evar("j"), RExpr::Paren(Arc::new(e)))),
    }
}

/// Pools of the typed environment: variables i, j (int), a (A), m (M); callee q.
pub fn typed_pools() -> Pools {
    Pools {
        lits: vec![Lit::Dec(1)],
        vars: vec!["i".into(), "a".into(), "m".into()],
        arrays: vec!["a".into(), "m".into()],
        add_ops: vec![Op::Add, Op::Sub],
        mul_ops: vec![Op::Mul],
        cmp_ops: vec![Op::Lst, Op::Equ],
        unary: true,
        paren: true,
        type_names: vec!["int".into(), "A".into()],
        array_sizes: vec![Lit::Dec(2)],
        procs: vec![("q".into(), vec![3]), ("printi".into(), vec![1]), ("r".into(), vec![1])],
        max_index_depth: 2,
    }
}

/// G1: whole programs over tiny pools.
pub fn g1_pools() -> (Pools, DeclPools) {
    (
        Pools {
            lits: vec![Lit::Dec(1)],
            vars: vec!["i".into()],
            arrays: vec!["i".into()],
            add_ops: vec![Op::Add],
            mul_ops: vec![Op::Mul],
            cmp_ops: vec![Op::Lst],
            unary: true,
            paren: true,
            type_names: vec!["int".into(), "A".into()],
            array_sizes: vec![Lit::Dec(2)],
            procs: vec![("p".into(), vec![0, 1])],
            max_index_depth: 1,
        },
        DeclPools {
            proc_names: vec!["main".into(), "p".into()],
            type_decl_names: vec!["A".into()],
            param_names: vec!["i".into()],
            local_names: vec!["i".into()],
            max_params: 2,
            max_vars: 1,
            max_type_tokens: 6,
        },
    )
}
