//! Bounded-exhaustive enumeration of derivations of the SPL grammar by token count.
//! The grammar is the LL grammar of the language description:
//!   Comp -> Add (cmp Add)?   Add -> Mul ((+|-) Mul)*   Mul -> Fac ((*|/) Fac)*
//!   Fac -> Prim | - Fac      Prim -> lit | Var | ( Comp )   Var -> id ([ Comp ])*
//! It is unambiguous, so a derivation and its token string determine each other and the
//! expected tree is obtained by construction (a left fold), never by a second parser.
use super::ast::*;
use std::collections::HashMap;
use std::sync::Arc as Rc;

#[derive(Clone, Debug)]
pub struct Pools {
    pub lits: Vec<Lit>,
    pub vars: Vec<String>,
    /// names that may be indexed (subset of vars); empty = no array accesses
    pub arrays: Vec<String>,
    pub add_ops: Vec<Op>,
    pub mul_ops: Vec<Op>,
    pub cmp_ops: Vec<Op>,
    pub unary: bool,
    pub paren: bool,
    pub type_names: Vec<String>,
    pub array_sizes: Vec<Lit>,
    /// callable names with the argument counts to enumerate
    pub procs: Vec<(String, Vec<usize>)>,
    pub max_index_depth: usize,
}

impl Pools {
    pub fn small() -> Self {
        Pools {
            lits: vec![Lit::Dec(1)],
            vars: vec!["i".into(), "a".into()],
            arrays: vec!["a".into()],
            add_ops: vec![Op::Add, Op::Sub],
            mul_ops: vec![Op::Mul],
            cmp_ops: vec![Op::Lst],
            unary: true,
            paren: true,
            type_names: vec!["int".into(), "A".into()],
            array_sizes: vec![Lit::Dec(2)],
            procs: vec![("q".into(), vec![0, 1, 2])],
            max_index_depth: 2,
        }
    }
    pub fn full_ops(mut self) -> Self {
        self.add_ops = vec![Op::Add, Op::Sub];
        self.mul_ops = vec![Op::Mul, Op::Div];
        self.cmp_ops = vec![Op::Equ, Op::Neq, Op::Lst, Op::Lse, Op::Grt, Op::Gre];
        self
    }
}

type V<T> = Rc<Vec<Rc<T>>>;

pub struct Enumerator {
    pub pools: Pools,
    prim: HashMap<usize, V<RExpr>>,
    fac: HashMap<usize, V<RExpr>>,
    mul: HashMap<usize, V<RExpr>>,
    add: HashMap<usize, V<RExpr>>,
    cmp: HashMap<usize, V<RExpr>>,
    var: HashMap<(usize, usize), V<RVar>>,
    ty: HashMap<usize, V<RType>>,
    stmt: HashMap<usize, V<RStmt>>,
    stmts: HashMap<usize, V<Vec<RStmt>>>,
    args: HashMap<(usize, usize), V<Vec<RExpr>>>,
}

impl Enumerator {
    pub fn new(pools: Pools) -> Self {
        Enumerator {
            pools,
            prim: HashMap::new(),
            fac: HashMap::new(),
            mul: HashMap::new(),
            add: HashMap::new(),
            cmp: HashMap::new(),
            var: HashMap::new(),
            ty: HashMap::new(),
            stmt: HashMap::new(),
            stmts: HashMap::new(),
            args: HashMap::new(),
        }
    }

    /// variables with exactly n tokens and at most `depth` index levels
    pub fn vars(&mut self, n: usize, depth: usize) -> V<RVar> {
        if let Some(v) = self.var.get(&(n, depth)) {
            return v.clone();
        }
        let mut out: Vec<Rc<RVar>> = vec![];
        if n == 1 {
            for v in &self.pools.vars.clone() {
                out.push(Rc::new(RVar::Name(v.clone())));
            }
        } else if depth > 0 && n >= 4 {
            // base(k) [ expr(n-k-2) ]
            for k in 1..=(n - 3) {
                let bases = self.vars(k, depth - 1);
                let idx = self.exprs(n - k - 2);
                for b in bases.iter() {
                    // only names from the array pool may be indexed
                    if !self.pools.arrays.iter().any(|a| a == base_name(b)) {
                        continue;
                    }
                    for i in idx.iter() {
                        out.push(Rc::new(RVar::Index(b.clone(), i.clone())));
                    }
                }
            }
        }
        let v = Rc::new(out);
        self.var.insert((n, depth), v.clone());
        v
    }

    fn prims(&mut self, n: usize) -> V<RExpr> {
        if let Some(v) = self.prim.get(&n) {
            return v.clone();
        }
        let mut out: Vec<Rc<RExpr>> = vec![];
        if n == 1 {
            for l in &self.pools.lits {
                out.push(Rc::new(RExpr::Int(l.clone())));
            }
        }
        let d = self.pools.max_index_depth;
        for v in self.vars(n, d).iter() {
            out.push(Rc::new(RExpr::Var((**v).clone())));
        }
        if self.pools.paren && n >= 3 {
            for e in self.exprs(n - 2).iter() {
                out.push(Rc::new(RExpr::Paren(e.clone())));
            }
        }
        let v = Rc::new(out);
        self.prim.insert(n, v.clone());
        v
    }

    fn facs(&mut self, n: usize) -> V<RExpr> {
        if let Some(v) = self.fac.get(&n) {
            return v.clone();
        }
        let mut out: Vec<Rc<RExpr>> = self.prims(n).iter().cloned().collect();
        if self.pools.unary && n >= 2 {
            for e in self.facs(n - 1).iter() {
                out.push(Rc::new(RExpr::Neg(e.clone())));
            }
        }
        let v = Rc::new(out);
        self.fac.insert(n, v.clone());
        v
    }

    fn muls(&mut self, n: usize) -> V<RExpr> {
        if let Some(v) = self.mul.get(&n) {
            return v.clone();
        }
        let mut out: Vec<Rc<RExpr>> = self.facs(n).iter().cloned().collect();
        if n >= 3 {
            for k in 1..=(n - 2) {
                let l = self.muls(k);
                let r = self.facs(n - 1 - k);
                for op in self.pools.mul_ops.clone() {
                    for a in l.iter() {
                        for b in r.iter() {
                            out.push(Rc::new(RExpr::Bin(op, a.clone(), b.clone())));
                        }
                    }
                }
            }
        }
        let v = Rc::new(out);
        self.mul.insert(n, v.clone());
        v
    }

    fn adds(&mut self, n: usize) -> V<RExpr> {
        if let Some(v) = self.add.get(&n) {
            return v.clone();
        }
        let mut out: Vec<Rc<RExpr>> = self.muls(n).iter().cloned().collect();
        if n >= 3 {
            for k in 1..=(n - 2) {
                let l = self.adds(k);
                let r = self.muls(n - 1 - k);
                for op in self.pools.add_ops.clone() {
                    for a in l.iter() {
                        for b in r.iter() {
                            out.push(Rc::new(RExpr::Bin(op, a.clone(), b.clone())));
                        }
                    }
                }
            }
        }
        let v = Rc::new(out);
        self.add.insert(n, v.clone());
        v
    }

    /// all expressions (Comp level) with exactly n tokens
    pub fn exprs(&mut self, n: usize) -> V<RExpr> {
        if let Some(v) = self.cmp.get(&n) {
            return v.clone();
        }
        // insert a placeholder to cut accidental cycles (n strictly decreases, so none occur)
        let mut out: Vec<Rc<RExpr>> = self.adds(n).iter().cloned().collect();
        if n >= 3 {
            for k in 1..=(n - 2) {
                let l = self.adds(k);
                let r = self.adds(n - 1 - k);
                for op in self.pools.cmp_ops.clone() {
                    for a in l.iter() {
                        for b in r.iter() {
                            out.push(Rc::new(RExpr::Bin(op, a.clone(), b.clone())));
                        }
                    }
                }
            }
        }
        let v = Rc::new(out);
        self.cmp.insert(n, v.clone());
        v
    }

    pub fn exprs_upto(&mut self, n: usize) -> Vec<Rc<RExpr>> {
        (1..=n).flat_map(|k| self.exprs(k).iter().cloned().collect::<Vec<_>>()).collect()
    }

    /// type expressions with exactly n tokens
    pub fn types(&mut self, n: usize) -> V<RType> {
        if let Some(v) = self.ty.get(&n) {
            return v.clone();
        }
        let mut out = vec![];
        if n == 1 {
            for t in &self.pools.type_names {
                out.push(Rc::new(RType::Name(t.clone())));
            }
        } else if n >= 6 {
            for b in self.types(n - 5).iter() {
                for s in &self.pools.array_sizes {
                    out.push(Rc::new(RType::Array(s.clone(), b.clone())));
                }
            }
        }
        let v = Rc::new(out);
        self.ty.insert(n, v.clone());
        v
    }

    /// argument lists with `count` arguments and exactly n tokens (commas included)
    fn arg_lists(&mut self, count: usize, n: usize) -> V<Vec<RExpr>> {
        if let Some(v) = self.args.get(&(count, n)) {
            return v.clone();
        }
        let mut out: Vec<Rc<Vec<RExpr>>> = vec![];
        if count == 0 {
            if n == 0 {
                out.push(Rc::new(vec![]));
            }
        } else if count == 1 {
            if n >= 1 {
                for e in self.exprs(n).iter() {
                    out.push(Rc::new(vec![(**e).clone()]));
                }
            }
        } else if n >= 2 * count - 1 {
            // first arg with k tokens, comma, rest
            for k in 1..=(n - 2 * (count - 1)) {
                let firsts = self.exprs(k);
                let rests = self.arg_lists(count - 1, n - k - 1);
                for f in firsts.iter() {
                    for r in rests.iter() {
                        let mut v = vec![(**f).clone()];
                        v.extend(r.iter().cloned());
                        out.push(Rc::new(v));
                    }
                }
            }
        }
        let v = Rc::new(out);
        self.args.insert((count, n), v.clone());
        v
    }

    /// statements with exactly n tokens
    pub fn stmts_n(&mut self, n: usize) -> V<RStmt> {
        if let Some(v) = self.stmt.get(&n) {
            return v.clone();
        }
        let mut out: Vec<Rc<RStmt>> = vec![];
        if n == 1 {
            out.push(Rc::new(RStmt::Empty));
        }
        // assignment: var(k) := expr(n-k-2) ;
        if n >= 4 {
            let d = self.pools.max_index_depth;
            for k in 1..=(n - 3) {
                let vs = self.vars(k, d);
                let es = self.exprs(n - k - 2);
                for v in vs.iter() {
                    for e in es.iter() {
                        out.push(Rc::new(RStmt::Assign((**v).clone(), (**e).clone())));
                    }
                }
            }
        }
        // call: name ( args ) ;
        if n >= 4 {
            for (name, counts) in self.pools.procs.clone() {
                for c in counts {
                    for a in self.arg_lists(c, n - 4).iter() {
                        out.push(Rc::new(RStmt::Call(name.clone(), (**a).clone())));
                    }
                }
            }
        }
        // block: { stmts(n-2) }
        if n >= 2 {
            for ss in self.stmt_lists(n - 2).iter() {
                out.push(Rc::new(RStmt::Block((**ss).clone())));
            }
        }
        // while ( expr(k) ) stmt(n-3-k)
        if n >= 5 {
            for k in 1..=(n - 4) {
                let cs = self.exprs(k);
                let bs = self.stmts_n(n - 3 - k);
                for c in cs.iter() {
                    for b in bs.iter() {
                        out.push(Rc::new(RStmt::While((**c).clone(), b.clone())));
                    }
                }
            }
        }
        // if ( expr(k) ) stmt(j) [ else stmt(n-4-k-j) ]
        if n >= 5 {
            for k in 1..=(n - 4) {
                let cs = self.exprs(k);
                let ts = self.stmts_n(n - 3 - k);
                for c in cs.iter() {
                    for t in ts.iter() {
                        out.push(Rc::new(RStmt::If((**c).clone(), t.clone(), None)));
                    }
                }
                // with else
                if n >= k + 6 {
                    for j in 1..=(n - k - 5) {
                        let ts = self.stmts_n(j);
                        let es = self.stmts_n(n - 4 - k - j);
                        for c in cs.iter() {
                            for t in ts.iter() {
                                if t.ends_open() {
                                    continue; // not a derivation: else binds to the nearest if
                                }
                                for e in es.iter() {
                                    out.push(Rc::new(RStmt::If((**c).clone(), t.clone(), Some(e.clone()))));
                                }
                            }
                        }
                    }
                }
            }
        }
        let v = Rc::new(out);
        self.stmt.insert(n, v.clone());
        v
    }

    /// statement lists with exactly n tokens
    pub fn stmt_lists(&mut self, n: usize) -> V<Vec<RStmt>> {
        if let Some(v) = self.stmts.get(&n) {
            return v.clone();
        }
        let mut out: Vec<Rc<Vec<RStmt>>> = vec![];
        if n == 0 {
            out.push(Rc::new(vec![]));
        } else {
            for k in 1..=n {
                let firsts = self.stmts_n(k);
                let rests = self.stmt_lists(n - k);
                for f in firsts.iter() {
                    for r in rests.iter() {
                        let mut v = vec![(**f).clone()];
                        v.extend(r.iter().cloned());
                        out.push(Rc::new(v));
                    }
                }
            }
        }
        let v = Rc::new(out);
        self.stmts.insert(n, v.clone());
        v
    }

    pub fn stmts_upto(&mut self, n: usize) -> Vec<Rc<RStmt>> {
        (1..=n).flat_map(|k| self.stmts_n(k).iter().cloned().collect::<Vec<_>>()).collect()
    }
    pub fn types_upto(&mut self, n: usize) -> Vec<Rc<RType>> {
        (1..=n).flat_map(|k| self.types(k).iter().cloned().collect::<Vec<_>>()).collect()
    }
}

pub fn base_name(v: &RVar) -> &str {
    match v {
        RVar::Name(n) => n,
        RVar::Index(b, _) => base_name(b),
    }
}

// ------------------------------------------------------------------------------------------
// declarations and whole programs (family G1)
// ------------------------------------------------------------------------------------------
#[derive(Clone, Debug)]
pub struct DeclPools {
    pub proc_names: Vec<String>,
    pub type_decl_names: Vec<String>,
    pub param_names: Vec<String>,
    pub local_names: Vec<String>,
    pub max_params: usize,
    pub max_vars: usize,
    pub max_type_tokens: usize,
}

impl Enumerator {
    /// parameter lists with exactly n tokens (commas included), at most `max` parameters
    fn param_lists(&mut self, dp: &DeclPools, max: usize, n: usize) -> Vec<Vec<RParam>> {
        let mut out = vec![];
        if n == 0 {
            out.push(vec![]);
            return out;
        }
        if max == 0 {
            return out;
        }
        // one parameter: [ref] name : type(k)
        for is_ref in [false, true] {
            let head = if is_ref { 3 } else { 2 };
            for k in 1..=dp.max_type_tokens {
                if head + k > n {
                    break;
                }
                let rest_n = n - head - k;
                let rests: Vec<Vec<RParam>> = if rest_n == 0 {
                    vec![vec![]]
                } else if rest_n >= 1 {
                    // comma + rest
                    self.param_lists(dp, max - 1, rest_n - 1)
                        .into_iter()
                        .filter(|r| !r.is_empty())
                        .collect()
                } else {
                    vec![]
                };
                if rests.is_empty() {
                    continue;
                }
                let tys = self.types(k);
                for name in &dp.param_names {
                    for t in tys.iter() {
                        for r in &rests {
                            let mut v = vec![RParam { is_ref, name: name.clone(), ty: (**t).clone() }];
                            v.extend(r.iter().cloned());
                            out.push(v);
                        }
                    }
                }
            }
        }
        out
    }

    fn var_lists(&mut self, dp: &DeclPools, max: usize, n: usize) -> Vec<Vec<RVarDecl>> {
        let mut out = vec![];
        if n == 0 {
            out.push(vec![]);
            return out;
        }
        if max == 0 {
            return out;
        }
        // var name : type(k) ;
        for k in 1..=dp.max_type_tokens {
            if 4 + k > n {
                break;
            }
            let rests = self.var_lists(dp, max - 1, n - 4 - k);
            let tys = self.types(k);
            for name in &dp.local_names {
                for t in tys.iter() {
                    for r in &rests {
                        let mut v = vec![RVarDecl { name: name.clone(), ty: (**t).clone() }];
                        v.extend(r.iter().cloned());
                        out.push(v);
                    }
                }
            }
        }
        out
    }

    /// global declarations with exactly n tokens
    pub fn decls_n(&mut self, dp: &DeclPools, n: usize) -> Vec<RDecl> {
        let mut out = vec![];
        // type name = T ;
        if n >= 5 && n - 4 <= dp.max_type_tokens {
            for t in self.types(n - 4).iter() {
                for name in &dp.type_decl_names {
                    out.push(RDecl::Type { name: name.clone(), ty: (**t).clone() });
                }
            }
        }
        // proc name ( params ) { vars stmts }
        if n >= 6 {
            let inner = n - 6;
            for pn in 0..=inner {
                let pls = self.param_lists(dp, dp.max_params, pn);
                if pls.is_empty() {
                    continue;
                }
                for vn in 0..=(inner - pn) {
                    let vls = self.var_lists(dp, dp.max_vars, vn);
                    if vls.is_empty() {
                        continue;
                    }
                    let sls = self.stmt_lists(inner - pn - vn);
                    for name in &dp.proc_names {
                        for pl in &pls {
                            for vl in &vls {
                                for sl in sls.iter() {
                                    out.push(RDecl::Proc {
                                        name: name.clone(),
                                        params: pl.clone(),
                                        vars: vl.clone(),
                                        body: (**sl).clone(),
                                    });
                                }
                            }
                        }
                    }
                }
            }
        }
        out
    }

    /// programs (declaration lists) with at most n tokens and at most `max_decls` declarations
    pub fn programs_upto(&mut self, dp: &DeclPools, n: usize, max_decls: usize) -> Vec<RProgram> {
        let by_len: Vec<Vec<RDecl>> = (0..=n).map(|k| if k >= 5 { self.decls_n(dp, k) } else { vec![] }).collect();
        let mut out = vec![RProgram::default()];
        fn rec(by_len: &[Vec<RDecl>], left: usize, decls_left: usize, cur: &mut Vec<RDecl>, out: &mut Vec<RProgram>) {
            if decls_left == 0 {
                return;
            }
            for k in 5..=left {
                for d in &by_len[k] {
                    cur.push(d.clone());
                    out.push(RProgram { decls: cur.clone() });
                    rec(by_len, left - k, decls_left - 1, cur, out);
                    cur.pop();
                }
            }
        }
        rec(&by_len, n, max_decls, &mut vec![], &mut out);
        out
    }
}
