pub mod ast;
pub mod enumerate;
pub mod layout;
pub mod refsem;
pub mod families;
