//! Reference implementation of the SPL declaration, scoping and type rules (independent of
//! spl_frontend::table).  Walks the reference tree in print order, so every result is keyed
//! by the (comment-free) token index of the printed program.
use super::ast::*;
use std::collections::HashMap;

#[derive(Clone, Copy, Debug, PartialEq, Eq, Hash, PartialOrd, Ord)]
pub enum Rule {
    UndefinedType,
    NotAType,
    RedeclarationAsType,
    MustBeAReferenceParameter,
    RedeclarationAsProcedure,
    RedeclarationAsParameter,
    RedeclarationAsVariable,
    MainIsMissing,
    MainIsNotAProcedure,
    MainMustNotHaveParameters,
    AssignmentHasDifferentTypes,
    AssignmentRequiresIntegers,
    IfConditionMustBeBoolean,
    WhileConditionMustBeBoolean,
    UndefinedProcedure,
    CallOfNoneProcedure,
    ArgumentsTypeMismatch,
    ArgumentMustBeAVariable,
    TooFewArguments,
    TooManyArguments,
    OperatorDifferentTypes,
    ComparisonNonInteger,
    ArithmeticOperatorNonInteger,
    UndefinedVariable,
    NotAVariable,
    IndexingNonArray,
    IndexingWithNonInteger,
    /// unary minus applied to a non-integer: SPL demands integer operands, the message
    /// catalogue of the implementation has no separate kind for it
    UnaryMinusNonInteger,
}

pub const ALL_RULES: &[Rule] = &[
    Rule::UndefinedType,
    Rule::NotAType,
    Rule::RedeclarationAsType,
    Rule::MustBeAReferenceParameter,
    Rule::RedeclarationAsProcedure,
    Rule::RedeclarationAsParameter,
    Rule::RedeclarationAsVariable,
    Rule::MainIsMissing,
    Rule::MainIsNotAProcedure,
    Rule::MainMustNotHaveParameters,
    Rule::AssignmentHasDifferentTypes,
    Rule::AssignmentRequiresIntegers,
    Rule::IfConditionMustBeBoolean,
    Rule::WhileConditionMustBeBoolean,
    Rule::UndefinedProcedure,
    Rule::CallOfNoneProcedure,
    Rule::ArgumentsTypeMismatch,
    Rule::ArgumentMustBeAVariable,
    Rule::TooFewArguments,
    Rule::TooManyArguments,
    Rule::OperatorDifferentTypes,
    Rule::ComparisonNonInteger,
    Rule::ArithmeticOperatorNonInteger,
    Rule::UndefinedVariable,
    Rule::NotAVariable,
    Rule::IndexingNonArray,
    Rule::IndexingWithNonInteger,
];

/// Resolved type. Array types are equal only when they stem from the same type expression
/// occurrence (`id` = token index of its `array` keyword): name equivalence.
#[derive(Clone, Debug, PartialEq, Eq)]
pub enum Ty {
    Int,
    Bool,
    Array { id: usize, size: u32, base: Box<Ty> },
}
impl Ty {
    /// rendering in SPL syntax
    pub fn render(&self) -> String {
        match self {
            Ty::Int => "int".into(),
            Ty::Bool => "boolean".into(),
            Ty::Array { size, base, .. } => format!("array [{}] of {}", size, base.render()),
        }
    }
}

#[derive(Clone, Debug, PartialEq, Eq)]
pub enum Target {
    /// token index of the declaring identifier
    Decl(usize),
    Builtin,
    Unbound,
}

#[derive(Clone, Copy, Debug, PartialEq, Eq)]
pub enum EntKind {
    Type,
    Proc,
    Param,
    Var,
}

#[derive(Clone, Debug)]
pub struct Occ {
    pub tok: usize,
    pub name: String,
    pub role: Role,
    pub target: Target,
    pub kind: Option<EntKind>,
    /// index of the enclosing global declaration
    pub decl: usize,
}

#[derive(Clone, Debug)]
pub struct ParamSig {
    pub name: String,
    pub is_ref: bool,
    pub ty: Option<Ty>,
}

#[derive(Clone, Debug)]
pub enum Entity {
    Type { name_tok: Option<usize>, ty: Option<Ty>, decl: Option<usize> },
    Proc { name_tok: Option<usize>, params: Vec<ParamSig>, decl: Option<usize> },
}

#[derive(Clone, Debug)]
pub struct Local {
    pub name_tok: usize,
    pub kind: EntKind,
    pub is_ref: bool,
    pub ty: Option<Ty>,
}

#[derive(Clone, Debug)]
pub struct SemErr {
    pub rule: Rule,
    /// token span (comment-free numbering) of the offending construct
    pub first: usize,
    pub end: usize,
}

#[derive(Clone, Debug, Default)]
pub struct Sem {
    pub errors: Vec<SemErr>,
    pub occs: Vec<Occ>,
    pub globals: HashMap<String, Entity>,
    /// per global declaration index: locals of that procedure (empty for types)
    pub locals: Vec<HashMap<String, Local>>,
    /// number of tokens walked (must equal the printed token count)
    pub ntoks: usize,
}

pub const BUILTIN_PROCS: &[(&str, &[(&str, bool)])] = &[
    ("printi", &[("i", false)]),
    ("printc", &[("i", false)]),
    ("readi", &[("i", true)]),
    ("readc", &[("i", true)]),
    ("exit", &[]),
    ("time", &[("i", true)]),
    ("clearAll", &[("color", false)]),
    ("setPixel", &[("x", false), ("y", false), ("color", false)]),
    ("drawLine", &[("x1", false), ("y1", false), ("x2", false), ("y2", false), ("color", false)]),
    ("drawCircle", &[("x0", false), ("y0", false), ("radius", false), ("color", false)]),
];

struct W {
    sem: Sem,
    pos: usize,
    decl: usize,
}

impl W {
    fn err(&mut self, rule: Rule, first: usize, end: usize) {
        self.sem.errors.push(SemErr { rule, first, end });
    }
    fn occ(&mut self, name: &str, role: Role, target: Target, kind: Option<EntKind>) {
        self.sem.occs.push(Occ { tok: self.pos, name: name.to_string(), role, target, kind, decl: self.decl });
        self.pos += 1;
    }

    /// type expression; `locals`: the scope in which type names are looked up first
    fn ty(&mut self, t: &RType, locals: Option<&HashMap<String, Local>>) -> Option<Ty> {
        match t {
            RType::Name(n) => {
                let at = self.pos;
                if let Some(l) = locals.and_then(|l| l.get(n)) {
                    self.occ(n, Role::TypeUse, Target::Decl(l.name_tok), Some(l.kind));
                    self.err(Rule::NotAType, at, at + 1);
                    return None;
                }
                match self.sem.globals.get(n).cloned() {
                    Some(Entity::Type { name_tok, ty, .. }) => {
                        let tg = name_tok.map(Target::Decl).unwrap_or(Target::Builtin);
                        self.occ(n, Role::TypeUse, tg, Some(EntKind::Type));
                        ty
                    }
                    Some(Entity::Proc { name_tok, .. }) => {
                        let tg = name_tok.map(Target::Decl).unwrap_or(Target::Builtin);
                        self.occ(n, Role::TypeUse, tg, Some(EntKind::Proc));
                        self.err(Rule::NotAType, at, at + 1);
                        None
                    }
                    None => {
                        self.occ(n, Role::TypeUse, Target::Unbound, None);
                        self.err(Rule::UndefinedType, at, at + 1);
                        None
                    }
                }
            }
            RType::Array(size, base) => {
                let id = self.pos;
                self.pos += 2; // array [
                self.pos += 1; // size
                self.pos += 2; // ] of
                let b = self.ty(base, locals);
                b.map(|b| Ty::Array { id, size: size.value(), base: Box::new(b) })
            }
        }
    }

    fn lookup_var(&self, locals: &HashMap<String, Local>, n: &str) -> (Target, Option<EntKind>, Option<Ty>, bool) {
        if let Some(l) = locals.get(n) {
            return (Target::Decl(l.name_tok), Some(l.kind), l.ty.clone(), true);
        }
        match self.sem.globals.get(n) {
            Some(Entity::Type { name_tok, .. }) => (
                name_tok.map(Target::Decl).unwrap_or(Target::Builtin),
                Some(EntKind::Type),
                None,
                false,
            ),
            Some(Entity::Proc { name_tok, .. }) => (
                name_tok.map(Target::Decl).unwrap_or(Target::Builtin),
                Some(EntKind::Proc),
                None,
                false,
            ),
            None => (Target::Unbound, None, None, false),
        }
    }

    fn var(&mut self, v: &RVar, locals: &HashMap<String, Local>) -> Option<Ty> {
        match v {
            RVar::Name(n) => {
                let at = self.pos;
                let (tg, kind, ty, is_var) = self.lookup_var(locals, n);
                let unbound = tg == Target::Unbound;
                self.occ(n, Role::VarUse, tg, kind);
                if unbound {
                    self.err(Rule::UndefinedVariable, at, at + 1);
                    None
                } else if !is_var {
                    self.err(Rule::NotAVariable, at, at + 1);
                    None
                } else {
                    ty
                }
            }
            RVar::Index(base, idx) => {
                let first = self.pos;
                let bt = self.var(base, locals);
                self.pos += 1; // [
                let ifirst = self.pos;
                let it = self.expr(idx, locals);
                let iend = self.pos;
                self.pos += 1; // ]
                let end = self.pos;
                if let Some(it) = it {
                    if it != Ty::Int {
                        self.err(Rule::IndexingWithNonInteger, ifirst, iend);
                    }
                }
                match bt {
                    Some(Ty::Array { base, .. }) => Some(*base),
                    Some(_) => {
                        self.err(Rule::IndexingNonArray, first, end);
                        None
                    }
                    None => None,
                }
            }
        }
    }

    fn expr(&mut self, e: &RExpr, locals: &HashMap<String, Local>) -> Option<Ty> {
        match e {
            RExpr::Int(_) => {
                self.pos += 1;
                Some(Ty::Int)
            }
            RExpr::Var(v) => self.var(v, locals),
            RExpr::Paren(i) => {
                self.pos += 1;
                let t = self.expr(i, locals);
                self.pos += 1;
                t
            }
            RExpr::Neg(i) => {
                let first = self.pos;
                self.pos += 1;
                let t = self.expr(i, locals);
                match t {
                    Some(Ty::Int) => Some(Ty::Int),
                    // the unary minus is an arithmetic operator: integers only; like for binary
                    // operators the result type follows from the operator
                    Some(_) => {
                        self.err(Rule::ArithmeticOperatorNonInteger, first, self.pos);
                        Some(Ty::Int)
                    }
                    None => Some(Ty::Int),
                }
            }
            RExpr::Bin(op, l, r) => {
                let first = self.pos;
                let lt = self.expr(l, locals);
                self.pos += 1;
                let rt = self.expr(r, locals);
                let end = self.pos;
                if let (Some(lt), Some(rt)) = (&lt, &rt) {
                    if lt != rt {
                        self.err(Rule::OperatorDifferentTypes, first, end);
                        if *lt != Ty::Int && *rt != Ty::Int {
                            // two rules are violated at once (different types, and neither
                            // operand is an integer): not a single-fault expression
                            self.err(
                                if op.is_arith() { Rule::ArithmeticOperatorNonInteger } else { Rule::ComparisonNonInteger },
                                first,
                                end,
                            );
                        }
                    } else if *lt != Ty::Int {
                        self.err(
                            if op.is_arith() { Rule::ArithmeticOperatorNonInteger } else { Rule::ComparisonNonInteger },
                            first,
                            end,
                        );
                    }
                }
                // the result type is always inferable from the operator
                Some(if op.is_arith() { Ty::Int } else { Ty::Bool })
            }
        }
    }

    fn stmt(&mut self, s: &RStmt, locals: &HashMap<String, Local>) {
        match s {
            RStmt::Empty => self.pos += 1,
            RStmt::Assign(v, e) => {
                let first = self.pos;
                let lt = self.var(v, locals);
                self.pos += 1;
                let rt = self.expr(e, locals);
                self.pos += 1;
                let end = self.pos;
                if let (Some(lt), Some(rt)) = (lt, rt) {
                    if lt != rt {
                        self.err(Rule::AssignmentHasDifferentTypes, first, end);
                    } else if lt != Ty::Int {
                        self.err(Rule::AssignmentRequiresIntegers, first, end);
                    }
                }
            }
            RStmt::Call(name, args) => {
                let first = self.pos;
                // callee: local scope first (a local variable shadows a procedure)
                let (tg, kind, sig): (Target, Option<EntKind>, Option<Vec<ParamSig>>) =
                    if let Some(l) = locals.get(name) {
                        (Target::Decl(l.name_tok), Some(l.kind), None)
                    } else {
                        match self.sem.globals.get(name) {
                            Some(Entity::Proc { name_tok, params, .. }) => (
                                name_tok.map(Target::Decl).unwrap_or(Target::Builtin),
                                Some(EntKind::Proc),
                                Some(params.clone()),
                            ),
                            Some(Entity::Type { name_tok, .. }) => (
                                name_tok.map(Target::Decl).unwrap_or(Target::Builtin),
                                Some(EntKind::Type),
                                None,
                            ),
                            None => (Target::Unbound, None, None),
                        }
                    };
                let unbound = tg == Target::Unbound;
                self.occ(name, Role::ProcUse, tg, kind);
                self.pos += 1; // (
                let mut arg_info = vec![];
                for (i, a) in args.iter().enumerate() {
                    if i > 0 {
                        self.pos += 1;
                    }
                    let af = self.pos;
                    // arguments beyond the parameter list / of unknown callees are still walked
                    let before = self.sem.errors.len();
                    let t = self.expr(a, locals);
                    let ae = self.pos;
                    arg_info.push((af, ae, t, matches!(a, RExpr::Var(_)), before));
                }
                self.pos += 2; // ) ;
                let end = self.pos;
                if unbound {
                    self.drop_arg_errors(&arg_info, 0);
                    self.err(Rule::UndefinedProcedure, first, end);
                } else if let Some(sig) = sig {
                    if args.len() < sig.len() {
                        self.err(Rule::TooFewArguments, first, end);
                    } else if args.len() > sig.len() {
                        self.err(Rule::TooManyArguments, first, end);
                    }
                    // surplus arguments are not analysed by SPL's rules
                    self.drop_arg_errors(&arg_info, sig.len());
                    for (i, p) in sig.iter().enumerate() {
                        if let Some((af, ae, t, is_var, _)) = arg_info.get(i) {
                            if p.is_ref && !is_var {
                                self.err(Rule::ArgumentMustBeAVariable, *af, *ae);
                            }
                            if let (Some(t), Some(pt)) = (t, &p.ty) {
                                if t != pt {
                                    self.err(Rule::ArgumentsTypeMismatch, *af, *ae);
                                }
                            }
                        }
                    }
                } else {
                    self.drop_arg_errors(&arg_info, 0);
                    self.err(Rule::CallOfNoneProcedure, first, end);
                }
            }
            RStmt::Block(ss) => {
                self.pos += 1;
                for x in ss {
                    self.stmt(x, locals);
                }
                self.pos += 1;
            }
            RStmt::If(c, t, e) => {
                self.pos += 2;
                let cf = self.pos;
                let ct = self.expr(c, locals);
                let ce = self.pos;
                self.pos += 1;
                if let Some(ct) = ct {
                    if ct != Ty::Bool {
                        self.err(Rule::IfConditionMustBeBoolean, cf, ce);
                    }
                }
                self.stmt(t, locals);
                if let Some(e) = e {
                    self.pos += 1;
                    self.stmt(e, locals);
                }
            }
            RStmt::While(c, b) => {
                self.pos += 2;
                let cf = self.pos;
                let ct = self.expr(c, locals);
                let ce = self.pos;
                self.pos += 1;
                if let Some(ct) = ct {
                    if ct != Ty::Bool {
                        self.err(Rule::WhileConditionMustBeBoolean, cf, ce);
                    }
                }
                self.stmt(b, locals);
            }
        }
    }

    /// Arguments that are not matched with a parameter are not analysed: remove the errors
    /// recorded while walking arguments with index >= keep.
    fn drop_arg_errors(&mut self, arg_info: &[(usize, usize, Option<Ty>, bool, usize)], keep: usize) {
        if let Some((af, _, _, _, _)) = arg_info.get(keep) {
            let from_tok = *af;
            let to_tok = arg_info.last().map(|a| a.1).unwrap_or(from_tok);
            self.sem
                .errors
                .retain(|e| !(e.first >= from_tok && e.end <= to_tok));
        }
    }
}

pub fn analyze(p: &RProgram) -> Sem {
    let mut w = W { sem: Sem::default(), pos: 0, decl: 0 };
    w.sem.globals.insert("int".into(), Entity::Type { name_tok: None, ty: Some(Ty::Int), decl: None });
    for (n, ps) in BUILTIN_PROCS {
        w.sem.globals.insert(
            n.to_string(),
            Entity::Proc {
                name_tok: None,
                params: ps
                    .iter()
                    .map(|(pn, r)| ParamSig { name: pn.to_string(), is_ref: *r, ty: Some(Ty::Int) })
                    .collect(),
                decl: None,
            },
        );
    }
    // pass 1: declarations in source order (types must precede their use; procedures are
    // entered in source order too, bodies are analysed afterwards so that calls may refer to
    // procedures declared later)
    struct Body<'a> {
        decl: usize,
        start: usize,
        stmts: &'a [RStmt],
        locals_of: String,
        shadowed: bool,
    }
    let mut bodies: Vec<Body> = vec![];
    for (di, d) in p.decls.iter().enumerate() {
        w.decl = di;
        match d {
            RDecl::Type { name, ty } => {
                w.pos += 1; // type
                let name_tok = w.pos;
                if name == "main" {
                    w.occ(name, Role::TypeDecl, Target::Decl(name_tok), Some(EntKind::Type));
                    w.err(Rule::MainIsNotAProcedure, name_tok, name_tok + 1);
                    w.pos += 1; // =
                    // the type expression is not analysed for a rejected declaration
                    let mut scratch = W { sem: Sem::default(), pos: w.pos, decl: di };
                    scratch.sem.globals = w.sem.globals.clone();
                    let _ = scratch.ty(ty, None);
                    // occurrences are kept (binding is still meaningful), errors dropped
                    w.sem.occs.extend(scratch.sem.occs);
                    w.pos = scratch.pos;
                    w.pos += 1; // ;
                    w.sem.locals.push(HashMap::new());
                    continue;
                }
                let redecl = w.sem.globals.contains_key(name);
                w.occ(name, Role::TypeDecl, Target::Decl(name_tok), Some(EntKind::Type));
                w.pos += 1; // =
                let t = w.ty(ty, None);
                w.pos += 1; // ;
                if redecl {
                    w.err(Rule::RedeclarationAsType, name_tok, name_tok + 1);
                } else {
                    w.sem.globals.insert(name.clone(), Entity::Type { name_tok: Some(name_tok), ty: t, decl: Some(di) });
                }
                w.sem.locals.push(HashMap::new());
            }
            RDecl::Proc { name, params, vars, body } => {
                w.pos += 1; // proc
                let name_tok = w.pos;
                w.occ(name, Role::ProcDecl, Target::Decl(name_tok), Some(EntKind::Proc));
                w.pos += 1; // (
                let mut locals: HashMap<String, Local> = HashMap::new();
                let mut sig = vec![];
                for (i, pa) in params.iter().enumerate() {
                    if i > 0 {
                        w.pos += 1;
                    }
                    if pa.is_ref {
                        w.pos += 1;
                    }
                    let ptok = w.pos;
                    w.occ(&pa.name, Role::ParamDecl, Target::Decl(ptok), Some(EntKind::Param));
                    w.pos += 1; // :
                    let t = w.ty(&pa.ty, None);
                    if let Some(t) = &t {
                        if !matches!(t, Ty::Int | Ty::Bool) && !pa.is_ref {
                            w.err(Rule::MustBeAReferenceParameter, ptok, ptok + 1);
                        }
                    }
                    sig.push(ParamSig { name: pa.name.clone(), is_ref: pa.is_ref, ty: t.clone() });
                    if locals.contains_key(&pa.name) {
                        w.err(Rule::RedeclarationAsParameter, ptok, ptok + 1);
                    } else {
                        locals.insert(pa.name.clone(), Local { name_tok: ptok, kind: EntKind::Param, is_ref: pa.is_ref, ty: t });
                    }
                }
                w.pos += 2; // ) {
                for v in vars {
                    w.pos += 1; // var
                    let vtok = w.pos;
                    w.occ(&v.name, Role::VarDecl, Target::Decl(vtok), Some(EntKind::Var));
                    w.pos += 1; // :
                    let snapshot = locals.clone();
                    let t = w.ty(&v.ty, Some(&snapshot));
                    w.pos += 1; // ;
                    if locals.contains_key(&v.name) {
                        w.err(Rule::RedeclarationAsVariable, vtok, vtok + 1);
                    } else {
                        locals.insert(v.name.clone(), Local { name_tok: vtok, kind: EntKind::Var, is_ref: false, ty: t });
                    }
                }
                let start = w.pos;
                // skip over the body for now
                let body_len: usize = body.iter().map(stmt_len).sum();
                w.pos += body_len + 1; // body }
                let redecl = w.sem.globals.contains_key(name);
                if redecl {
                    w.err(Rule::RedeclarationAsProcedure, name_tok, name_tok + 1);
                } else {
                    w.sem.globals.insert(name.clone(), Entity::Proc { name_tok: Some(name_tok), params: sig, decl: Some(di) });
                }
                w.sem.locals.push(locals);
                bodies.push(Body { decl: di, start, stmts: body, locals_of: name.clone(), shadowed: redecl });
            }
        }
    }
    w.sem.ntoks = w.pos;
    // main rules
    match w.sem.globals.get("main") {
        Some(Entity::Proc { params, name_tok, .. }) => {
            if !params.is_empty() {
                let t = name_tok.unwrap_or(0);
                let d = p
                    .decls
                    .iter()
                    .position(|d| matches!(d, RDecl::Proc { name, .. } if name == "main"))
                    .unwrap_or(0);
                let _ = d;
                w.err(Rule::MainMustNotHaveParameters, t, t + 1);
            }
        }
        Some(Entity::Type { .. }) => {}
        None => {
            // `type main` is reported on its own; a missing main procedure only when no
            // declaration is called main at all
            let has_type_main = p.decls.iter().any(|d| matches!(d, RDecl::Type { name, .. } if name == "main"));
            if !has_type_main {
                w.err(Rule::MainIsMissing, 0, w.sem.ntoks);
            } else {
                w.err(Rule::MainIsMissing, 0, w.sem.ntoks);
            }
        }
    }
    // pass 2: bodies
    for b in bodies {
        w.pos = b.start;
        w.decl = b.decl;
        let locals = w.sem.locals[b.decl].clone();
        let _ = (&b.locals_of, b.shadowed);
        for s in b.stmts {
            w.stmt(s, &locals);
        }
    }
    w.sem.occs.sort_by_key(|o| o.tok);
    w.sem.errors.sort_by_key(|e| (e.first, e.end));
    w.sem
}

pub fn expr_len(e: &RExpr) -> usize {
    match e {
        RExpr::Int(_) => 1,
        RExpr::Var(v) => var_len(v),
        RExpr::Paren(i) => 2 + expr_len(i),
        RExpr::Neg(i) => 1 + expr_len(i),
        RExpr::Bin(_, l, r) => 1 + expr_len(l) + expr_len(r),
    }
}
pub fn var_len(v: &RVar) -> usize {
    match v {
        RVar::Name(_) => 1,
        RVar::Index(b, i) => var_len(b) + 2 + expr_len(i),
    }
}
pub fn stmt_len(s: &RStmt) -> usize {
    match s {
        RStmt::Empty => 1,
        RStmt::Assign(v, e) => var_len(v) + 2 + expr_len(e),
        RStmt::Call(_, args) => {
            3 + args.iter().map(expr_len).sum::<usize>() + args.len().saturating_sub(1) + 1
        }
        RStmt::Block(ss) => 2 + ss.iter().map(stmt_len).sum::<usize>(),
        RStmt::If(c, t, e) => 3 + expr_len(c) + stmt_len(t) + e.as_ref().map(|e| 1 + stmt_len(e)).unwrap_or(0),
        RStmt::While(c, b) => 3 + expr_len(c) + stmt_len(b),
    }
}
pub fn type_len(t: &RType) -> usize {
    match t {
        RType::Name(_) => 1,
        RType::Array(_, b) => 5 + type_len(b),
    }
}
