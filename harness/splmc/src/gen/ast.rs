//! Reference AST (`R*`), independent of spl_frontend::ast, and its printer.
//! The tree is the *input* of printing, so it is the ground truth for parsing (C04),
//! spans (C04/C05/C17), and — through refsem — for binding and typing.
use std::sync::Arc as Rc;

#[derive(Clone, Debug, PartialEq, Eq, Hash)]
pub enum Lit {
    Dec(u32),
    /// spelling after `0x`
    Hex(String),
    /// character literal: 'c' or '\n' (spelled with backslash)
    Chr(char),
}
impl Lit {
    pub fn spelling(&self) -> String {
        match self {
            Lit::Dec(v) => v.to_string(),
            Lit::Hex(s) => format!("0x{}", s),
            Lit::Chr('\n') => "'\\n'".to_string(),
            Lit::Chr(c) => format!("'{}'", c),
        }
    }
    pub fn value(&self) -> u32 {
        match self {
            Lit::Dec(v) => *v,
            Lit::Hex(s) => u32::from_str_radix(s, 16).unwrap(),
            Lit::Chr(c) => *c as u32,
        }
    }
}

#[derive(Clone, Copy, Debug, PartialEq, Eq, Hash)]
pub enum Op {
    Add,
    Sub,
    Mul,
    Div,
    Equ,
    Neq,
    Lst,
    Lse,
    Grt,
    Gre,
}
impl Op {
    pub fn spelling(self) -> &'static str {
        match self {
            Op::Add => "+",
            Op::Sub => "-",
            Op::Mul => "*",
            Op::Div => "/",
            Op::Equ => "=",
            Op::Neq => "#",
            Op::Lst => "<",
            Op::Lse => "<=",
            Op::Grt => ">",
            Op::Gre => ">=",
        }
    }
    pub fn is_arith(self) -> bool {
        matches!(self, Op::Add | Op::Sub | Op::Mul | Op::Div)
    }
}

#[derive(Clone, Debug, PartialEq, Eq, Hash)]
pub enum RVar {
    Name(String),
    Index(Rc<RVar>, Rc<RExpr>),
}

#[derive(Clone, Debug, PartialEq, Eq, Hash)]
pub enum RExpr {
    Int(Lit),
    Var(RVar),
    Paren(Rc<RExpr>),
    Neg(Rc<RExpr>),
    Bin(Op, Rc<RExpr>, Rc<RExpr>),
}

#[derive(Clone, Debug, PartialEq, Eq, Hash)]
pub enum RType {
    Name(String),
    Array(Lit, Rc<RType>),
}

#[derive(Clone, Debug, PartialEq, Eq, Hash)]
pub enum RStmt {
    Empty,
    Assign(RVar, RExpr),
    Call(String, Vec<RExpr>),
    Block(Vec<RStmt>),
    If(RExpr, Rc<RStmt>, Option<Rc<RStmt>>),
    While(RExpr, Rc<RStmt>),
}

#[derive(Clone, Debug, PartialEq, Eq, Hash)]
pub struct RParam {
    pub is_ref: bool,
    pub name: String,
    pub ty: RType,
}

#[derive(Clone, Debug, PartialEq, Eq, Hash)]
pub struct RVarDecl {
    pub name: String,
    pub ty: RType,
}

#[derive(Clone, Debug, PartialEq, Eq, Hash)]
pub enum RDecl {
    Type {
        name: String,
        ty: RType,
    },
    Proc {
        name: String,
        params: Vec<RParam>,
        vars: Vec<RVarDecl>,
        body: Vec<RStmt>,
    },
}

#[derive(Clone, Debug, PartialEq, Eq, Hash, Default)]
pub struct RProgram {
    pub decls: Vec<RDecl>,
}

impl RStmt {
    /// true when the statement ends in an `if` without `else`: it cannot be the then-branch
    /// of an if-else (the `else` would bind to the inner `if`).
    pub fn ends_open(&self) -> bool {
        match self {
            RStmt::If(_, t, None) => {
                let _ = t;
                true
            }
            RStmt::If(_, _, Some(e)) => e.ends_open(),
            RStmt::While(_, s) => s.ends_open(),
            _ => false,
        }
    }
}

// ------------------------------------------------------------------------------------------
// printing: token list + node spans + identifier roles
// ------------------------------------------------------------------------------------------
#[derive(Clone, Debug, PartialEq, Eq)]
pub enum Role {
    TypeDecl,
    ProcDecl,
    ParamDecl,
    VarDecl,
    TypeUse,
    ProcUse,
    VarUse,
}

#[derive(Clone, Debug, PartialEq, Eq)]
pub enum TokClass {
    Keyword,
    Symbol,
    Ident(Role),
    Number,
}

#[derive(Clone, Debug)]
pub struct Tok {
    pub text: String,
    pub class: TokClass,
    /// index of the enclosing global declaration
    pub decl: usize,
    /// nesting level for indentation purposes (number of enclosing bodies/blocks/brace-less branches)
    pub level: usize,
}

#[derive(Clone, Debug, PartialEq, Eq)]
pub enum NodeKind {
    Program,
    TypeDecl,
    ProcDecl,
    Param,
    VarDecl,
    TypeName,
    TypeArray,
    StmtEmpty,
    StmtAssign,
    StmtCall,
    StmtBlock,
    StmtIf,
    StmtWhile,
    ExprInt,
    ExprVarName,
    ExprIndex,
    ExprParen,
    ExprNeg,
    ExprBin,
    /// name identifier of a declaration / call / named variable etc.
    Ident,
}

/// A node with its token span (comment-free token numbering) in pre-order.
#[derive(Clone, Debug, PartialEq, Eq)]
pub struct Span {
    pub kind: NodeKind,
    pub first: usize,
    /// exclusive
    pub end: usize,
}

#[derive(Clone, Debug, Default)]
pub struct Printed {
    pub toks: Vec<Tok>,
    pub spans: Vec<Span>,
    /// (first, end) token span of every global declaration
    pub decl_spans: Vec<(usize, usize)>,
    /// call sites: (token index of `(`, token index of `)`, callee name, argument count,
    /// token indexes of the separating commas)
    pub calls: Vec<CallSite>,
    /// statement starts: token index of the first token of every statement (and the closing
    /// brace of every statement list, where a new statement could start)
    pub stmt_starts: Vec<usize>,
    /// indexes into `spans` of nodes that do NOT own the comments in front of their first
    /// token: the name of a parameter without `ref` (those comments are the parameter's doc
    /// comments, consumed by the declaration before the identifier is parsed)
    pub no_lead: Vec<usize>,
    /// indexes into `spans` of block statements that are the branch of an if / while
    pub branch_blocks: Vec<usize>,
}

#[derive(Clone, Debug)]
pub struct CallSite {
    pub name_tok: usize,
    pub lparen: usize,
    pub rparen: usize,
    pub callee: String,
    pub commas: Vec<usize>,
    pub decl: usize,
}

struct P {
    out: Printed,
    decl: usize,
    level: usize,
}

impl P {
    fn kw(&mut self, s: &str) {
        self.push(s, TokClass::Keyword)
    }
    fn sym(&mut self, s: &str) {
        self.push(s, TokClass::Symbol)
    }
    fn id(&mut self, s: &str, r: Role) {
        let at = self.out.toks.len();
        self.push(s, TokClass::Ident(r));
        self.out.spans.push(Span { kind: NodeKind::Ident, first: at, end: at + 1 });
    }
    fn push(&mut self, s: &str, c: TokClass) {
        self.out.toks.push(Tok {
            text: s.to_string(),
            class: c,
            decl: self.decl,
            level: self.level,
        });
    }
    fn open(&mut self, kind: NodeKind) -> usize {
        let i = self.out.spans.len();
        self.out.spans.push(Span { kind, first: self.out.toks.len(), end: 0 });
        i
    }
    fn close(&mut self, i: usize) {
        self.out.spans[i].end = self.out.toks.len();
    }

    fn lit(&mut self, l: &Lit) {
        self.push(&l.spelling(), TokClass::Number);
    }

    fn ty(&mut self, t: &RType) {
        match t {
            RType::Name(n) => {
                let s = self.open(NodeKind::TypeName);
                // the NamedType node *is* the identifier: one span only
                self.push(n, TokClass::Ident(Role::TypeUse));
                self.close(s);
            }
            RType::Array(size, base) => {
                let s = self.open(NodeKind::TypeArray);
                self.kw("array");
                self.sym("[");
                let l = self.open(NodeKind::ExprInt);
                self.lit(size);
                self.close(l);
                self.sym("]");
                self.kw("of");
                self.ty(base);
                self.close(s);
            }
        }
    }

    /// prints a variable; `first` is the token index where the whole variable starts
    fn var(&mut self, v: &RVar) {
        // An access chain a[i][j] is one nest of ArrayAccess nodes that all start at `a`.
        // Pre-order: outermost access first.
        fn depth(v: &RVar) -> usize {
            match v {
                RVar::Name(_) => 0,
                RVar::Index(b, _) => 1 + depth(b),
            }
        }
        let d = depth(v);
        let start = self.out.toks.len();
        let mut opened = vec![];
        for _ in 0..d {
            opened.push(self.open(NodeKind::ExprIndex));
        }
        // innermost: the name
        fn name_of(v: &RVar) -> &str {
            match v {
                RVar::Name(n) => n,
                RVar::Index(b, _) => name_of(b),
            }
        }
        let s = self.open(NodeKind::ExprVarName);
        self.push(name_of(v), TokClass::Ident(Role::VarUse));
        self.close(s);
        // indexes from innermost to outermost
        fn indexes<'a>(v: &'a RVar, out: &mut Vec<&'a RExpr>) {
            if let RVar::Index(b, i) = v {
                indexes(b, out);
                out.push(i);
            }
        }
        let mut idx = vec![];
        indexes(v, &mut idx);
        for (k, e) in idx.iter().enumerate() {
            self.sym("[");
            self.expr(e);
            self.sym("]");
            // the k-th index closes the (d-1-k)-th opened access (innermost access closes first)
            let node = opened[d - 1 - k];
            self.out.spans[node].first = start;
            self.close(node);
        }
    }

    fn expr(&mut self, e: &RExpr) {
        match e {
            RExpr::Int(l) => {
                let s = self.open(NodeKind::ExprInt);
                self.lit(l);
                self.close(s);
            }
            RExpr::Var(v) => self.var(v),
            RExpr::Paren(i) => {
                let s = self.open(NodeKind::ExprParen);
                self.sym("(");
                self.expr(i);
                self.sym(")");
                self.close(s);
            }
            RExpr::Neg(i) => {
                let s = self.open(NodeKind::ExprNeg);
                self.sym("-");
                self.expr(i);
                self.close(s);
            }
            RExpr::Bin(op, l, r) => {
                let s = self.open(NodeKind::ExprBin);
                self.expr(l);
                self.sym(op.spelling());
                self.expr(r);
                self.close(s);
            }
        }
    }

    fn stmt(&mut self, st: &RStmt) {
        self.out.stmt_starts.push(self.out.toks.len());
        match st {
            RStmt::Empty => {
                let s = self.open(NodeKind::StmtEmpty);
                self.sym(";");
                self.close(s);
            }
            RStmt::Assign(v, e) => {
                let s = self.open(NodeKind::StmtAssign);
                self.var(v);
                self.sym(":=");
                self.expr(e);
                self.sym(";");
                self.close(s);
            }
            RStmt::Call(name, args) => {
                let s = self.open(NodeKind::StmtCall);
                let name_tok = self.out.toks.len();
                self.id(name, Role::ProcUse);
                let lparen = self.out.toks.len();
                self.sym("(");
                let mut commas = vec![];
                for (i, a) in args.iter().enumerate() {
                    if i > 0 {
                        commas.push(self.out.toks.len());
                        self.sym(",");
                    }
                    self.expr(a);
                }
                let rparen = self.out.toks.len();
                self.sym(")");
                self.sym(";");
                self.close(s);
                self.out.calls.push(CallSite {
                    name_tok,
                    lparen,
                    rparen,
                    callee: name.clone(),
                    commas,
                    decl: self.decl,
                });
            }
            RStmt::Block(ss) => {
                let s = self.open(NodeKind::StmtBlock);
                self.sym("{");
                self.level += 1;
                for x in ss {
                    self.stmt(x);
                }
                self.out.stmt_starts.push(self.out.toks.len());
                self.level -= 1;
                self.sym("}");
                self.close(s);
            }
            RStmt::If(c, t, e) => {
                let s = self.open(NodeKind::StmtIf);
                self.kw("if");
                self.sym("(");
                self.expr(c);
                self.sym(")");
                self.branch(t);
                if let Some(e) = e {
                    self.kw("else");
                    if matches!(**e, RStmt::If(..)) {
                        // `else if` chains stay on the nesting level of the first `if`
                        self.stmt(e);
                    } else {
                        self.branch(e);
                    }
                }
                self.close(s);
            }
            RStmt::While(c, b) => {
                let s = self.open(NodeKind::StmtWhile);
                self.kw("while");
                self.sym("(");
                self.expr(c);
                self.sym(")");
                self.branch(b);
                self.close(s);
            }
        }
    }

    fn branch(&mut self, s: &RStmt) {
        if matches!(s, RStmt::Block(_)) {
            self.out.branch_blocks.push(self.out.spans.len());
            self.stmt(s);
        } else {
            self.level += 1;
            self.stmt(s);
            self.level -= 1;
        }
    }

    fn decl(&mut self, d: &RDecl) {
        let first = self.out.toks.len();
        match d {
            RDecl::Type { name, ty } => {
                let s = self.open(NodeKind::TypeDecl);
                self.kw("type");
                self.id(name, Role::TypeDecl);
                self.sym("=");
                self.ty(ty);
                self.sym(";");
                self.close(s);
            }
            RDecl::Proc { name, params, vars, body } => {
                let s = self.open(NodeKind::ProcDecl);
                self.kw("proc");
                self.id(name, Role::ProcDecl);
                self.sym("(");
                self.level += 1;
                for (i, p) in params.iter().enumerate() {
                    if i > 0 {
                        self.sym(",");
                    }
                    let ps = self.open(NodeKind::Param);
                    if p.is_ref {
                        self.kw("ref");
                    } else {
                        self.out.no_lead.push(self.out.spans.len());
                    }
                    self.id(&p.name, Role::ParamDecl);
                    self.sym(":");
                    self.ty(&p.ty);
                    self.close(ps);
                }
                self.level -= 1;
                self.sym(")");
                self.sym("{");
                self.level += 1;
                for v in vars {
                    let vs = self.open(NodeKind::VarDecl);
                    self.kw("var");
                    self.id(&v.name, Role::VarDecl);
                    self.sym(":");
                    self.ty(&v.ty);
                    self.sym(";");
                    self.close(vs);
                }
                for st in body {
                    self.stmt(st);
                }
                self.out.stmt_starts.push(self.out.toks.len());
                self.level -= 1;
                self.sym("}");
                self.close(s);
            }
        }
        self.out.decl_spans.push((first, self.out.toks.len()));
    }
}

pub fn print_program(p: &RProgram) -> Printed {
    let mut pr = P { out: Printed::default(), decl: 0, level: 0 };
    let s = pr.open(NodeKind::Program);
    for (i, d) in p.decls.iter().enumerate() {
        pr.decl = i;
        pr.decl(d);
    }
    pr.close(s);
    pr.out
}
