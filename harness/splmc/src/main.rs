#![allow(dead_code)]
mod checks;
mod common;
mod gen;
mod project;
mod lsptext;
mod session;
mod sched;
mod procdrv;
mod lifecycle;
mod progs;
mod reflex;
mod soup;

use common::*;
use serde_json::Value;

fn usage() -> ! {
    eprintln!("usage: splmc check <ID> <quick|thorough> | splmc replay <path>");
    exit_process(2)
}

fn run_check(id: &str, tier: Tier) -> Option<Report> {
    Some(match id {
        "C01" => checks::c01::run(tier),
        "C02" => checks::c02::run(tier),
        "C03" => checks::c03::run(tier),
        "C04" => checks::c04::run(tier),
        "C05" => checks::c05::run(tier),
        "C06" => checks::c06::run(tier),
        "C07" => checks::c07::run(tier),
        "C08" => checks::c08::run(tier),
        "C09" => checks::c09::run(tier),
        "C10" => checks::c10::run(tier),
        "C11" => checks::c11::run(tier),
        "C12" => checks::c12::run(tier),
        "C13" => checks::c13::run(tier),
        "C14" => checks::c14::run(tier),
        "C15" => checks::c15::run(tier),
        "C16" => checks::c16::run(tier),
        "C17" => checks::c17::run(tier),
        "C18" => checks::c18::run(tier),
        "C19" => checks::c19::run(tier),
        "C20" => checks::c20::run(tier),
        _ => return None,
    })
}

fn replay_case(id: &str, case: &Value) -> Option<Vec<Failure>> {
    Some(match id {
        "C01" => checks::c01::replay(case),
        "C02" => checks::c02::replay(case),
        "C03" => checks::c03::replay(case),
        "C04" => checks::c04::replay(case),
        "C05" => checks::c05::replay(case),
        "C06" => checks::c06::replay(case),
        "C07" => checks::c07::replay(case),
        "C08" => checks::c08::replay(case),
        "C09" => checks::c09::replay(case),
        "C10" => checks::c10::replay(case),
        "C11" => checks::c11::replay(case),
        "C12" => checks::c12::replay(case),
        "C13" => checks::c13::replay(case),
        "C14" => checks::c14::replay(case),
        "C15" => checks::c15::replay(case),
        "C16" => checks::c16::replay(case),
        "C17" => checks::c17::replay(case),
        "C18" => checks::c18::replay(case),
        "C19" => checks::c19::replay(case),
        "C20" => checks::c20::replay(case),
        _ => return None,
    })
}

fn main() {
    install_panic_hook();
    init_pool();
    let args: Vec<String> = std::env::args().collect();
    if args.len() < 3 {
        usage();
    }
    match args[1].as_str() {
        "check" => {
            let id = args[2].as_str();
            install_exit_guard(id);
            start_watchdog(120);
            let tier = match args.get(3).map(|s| s.as_str()) {
                Some("thorough") => Tier::Thorough,
                Some("quick") | None => Tier::Quick,
                _ => usage(),
            };
            match run_check(id, tier) {
                Some(rep) => exit_process(rep.finish()),
                None => {
                    eprintln!("MACHINERY-ERROR unknown check {}", id);
                    exit_process(2)
                }
            }
        }
        "baseline" => {
            match args[2].as_str() {
                "C01" => checks::c01::write_baseline(),
                "C05" => checks::c05::write_baseline(),
                _ => usage(),
            }
        }
        "replay" => {
            let path = std::path::Path::new(&args[2]);
            let doc = match read_json(path) {
                Ok(d) => d,
                Err(e) => {
                    eprintln!("MACHINERY-ERROR {}", e);
                    exit_process(2)
                }
            };
            let id = doc["property"].as_str().unwrap_or("").to_string();
            // a replay that does not terminate is the violation it replays
            install_exit_guard(&id);
            start_watchdog(120);
            let _g = watch(&id, || doc["case"].to_string());
            // a hang of the binary recorded without the check's own case description: the
            // client's input is replayed as it was written
            if let Some(input) = doc["case"].get("client_input") {
                let limit = std::time::Duration::from_secs(20);
                let o = match input {
                    Value::Array(a) if a.iter().all(|m| m.is_object()) => procdrv::run_lockstep(a, limit),
                    Value::Array(a) => procdrv::run_chunks(&a.iter().map(|c| c.as_str().unwrap_or("").as_bytes().to_vec()).collect::<Vec<_>>(), false, limit),
                    other => procdrv::run_chunks(&[other.as_str().unwrap_or("").as_bytes().to_vec()], false, limit),
                };
                if o.timed_out || o.unanswered.is_some() {
                    println!("VIOLATION property={} replay={}", id, path.display());
                    println!("  key=hang detail=timed out {} unanswered {:?}", o.timed_out, o.unanswered);
                    exit_process(1)
                }
                println!("replay: case passes on the current tree");
                exit_process(0)
            }
            match replay_case(&id, &doc["case"]) {
                Some(fails) if fails.is_empty() => {
                    println!("replay: case passes on the current tree");
                    exit_process(0)
                }
                Some(fails) => {
                    for f in &fails {
                        println!("VIOLATION property={} replay={}", id, path.display());
                        println!("  key={} detail={}", f.key, truncate(&f.detail, 600));
                    }
                    exit_process(1)
                }
                None => {
                    eprintln!("MACHINERY-ERROR unknown property {}", id);
                    exit_process(2)
                }
            }
        }
        _ => usage(),
    }
}

#[cfg(test)]
mod smoke {
    #[test]
    fn session_smoke() {
        let mut s = crate::session::Session::new(true);
        s.open(crate::session::URI, "proc main() { }\n");
        let id = s.request("textDocument/foldingRange", crate::session::doc_request_params("textDocument/foldingRange", crate::session::URI));
        let o = s.run();
        assert!(o.error.is_none(), "{:?}", o.error);
        assert!(o.responses().contains_key(&id), "{:?}", o.frames);
        assert_eq!(o.notifications("textDocument/publishDiagnostics").len(), 1);
    }
}

#[cfg(test)]
mod family_tests {
    use crate::common::Tier;
    use crate::gen::ast::print_program;
    use crate::gen::layout::*;
    #[test]
    fn typed_family_is_clean_in_refsem_and_counts() {
        let f = crate::progs::typed_family(Tier::Quick);
        let mut by = std::collections::BTreeMap::new();
        for it in &f {
            *by.entry(it.family).or_insert(0) += 1;
            let pr = print_program(&it.program);
            let sem = crate::gen::refsem::analyze(&it.program);
            assert_eq!(sem.ntoks, pr.toks.len());
            for o in &sem.occs {
                assert_eq!(pr.toks[o.tok].text, o.name);
            }
        }
        println!("{:?} total {}", by, f.len());
        let pr = print_program(&f[0].program);
        println!("{}", render_plain(&pr.toks, Layout::Pretty).text);
    }
}

#[cfg(test)]
mod sched_tests {
    use crate::sched::*;
    use crate::session::*;
    #[test]
    fn bounded_dfs_counts() {
        let mut s = Session::new(true);
        s.open(URI, "proc main() { }\n");
        s.request("textDocument/foldingRange", doc_request_params("textDocument/foldingRange", URI));
        s.msgs.push(request(99, "shutdown", serde_json::Value::Null));
        s.msgs.push(notification("exit", serde_json::Value::Null));
        let env = EnvConfig { chunks: vec![s.bytes()], feeder_task: false, clamp: None, stdout_cap: None, delay_bounded: false };
        let mut last = 0;
        for b in 0..=2 {
            let t = std::time::Instant::now();
            let e = explore(&env, b);
            println!("bound {}: executions {} decisions {} depth {} outputs {} abort {:?} in {:?}", b, e.stats.executions, e.stats.decisions, e.stats.max_depth, e.outcomes.len(), e.abort, t.elapsed());
            assert!(e.abort.is_none());
            assert!(e.stats.executions >= last);
            last = e.stats.executions;
            assert_eq!(e.outcomes.len(), 1);
        }
        let base = run_inproc(&s.bytes());
        let e = explore(&env, 0);
        assert_eq!(e.outcomes.keys().next().unwrap(), &base.raw);
    }
}

#[cfg(test)]
mod burst_timing {
    use crate::checks::c20::*;
    #[test]
    fn timing() {
        for (n, b, clamp, cap) in [(10usize, 1usize, None, None), (40, 0, None, None), (40, 0, None, Some(64)), (40, 1, None, None), (20, 1, Some(1), Some(32))] {
            let t = std::time::Instant::now();
            let sc: Vec<Op> = {
                let mut sc = vec![Op::Open(0, 0)];
                for i in 0..n { sc.push(Op::Change(0, if i % 3 == 2 { 1 } else { 0 })); sc.push(Op::Request(0, 0)); }
                sc
            };
            let (k, f) = eval_scenario(&sc, true, b, clamp, cap, true, true);
            println!("burst {} bound {} clamp {:?} cap {:?}: {} executions in {:?} fail {:?}", n, b, clamp, cap, k, t.elapsed(), f.map(|x| x.0));
        }
    }
}
