//! Driving the release binary of lsp4spl as a process over pipes.
use crate::session::{frame, parse_frames};
use serde_json::Value;
use std::io::{Read, Write};
use std::process::{Child, Command, Stdio};
use std::sync::{Arc, Condvar, Mutex};
use std::time::{Duration, Instant};

pub fn binary() -> String {
    std::env::var("SPLMC_LSP_BIN").unwrap_or_else(|_| {
        crate::common::verif_dir().join("harness/target-bin/release/lsp4spl").to_string_lossy().to_string()
    })
}

#[derive(Debug, Clone, Default)]
pub struct ProcOutcome {
    pub raw: Vec<u8>,
    pub frames: Vec<Value>,
    pub frame_error: Option<String>,
    /// exit code; None when killed by a signal or by the harness after the time limit
    pub exit_code: Option<i32>,
    pub timed_out: bool,
    pub signaled: bool,
    pub exit_ms: u128,
    /// number of messages actually written before the process went away
    pub written: usize,
    /// a request that got no response within the per-request limit (lock-step only)
    pub unanswered: Option<usize>,
}

struct Shared {
    buf: Mutex<(Vec<u8>, bool)>,
    cv: Condvar,
}

fn spawn() -> std::io::Result<(Child, Arc<Shared>, std::thread::JoinHandle<()>)> {
    spawn_delayed(Duration::ZERO, None)
}

/// `reader_delay`: the client does not read the server's output before that time has passed
/// (a slow client: the pipe fills up and the server's writer is blocked meanwhile)
/// `throttle`: afterwards it reads at most that many bytes per read and pauses in between
fn spawn_delayed(reader_delay: Duration, throttle: Option<(usize, Duration)>) -> std::io::Result<(Child, Arc<Shared>, std::thread::JoinHandle<()>)> {
    let mut child = Command::new(binary()).env("TOKIO_WORKER_THREADS", "4").stdin(Stdio::piped()).stdout(Stdio::piped()).stderr(Stdio::null()).spawn()?;
    let mut out = child.stdout.take().unwrap();
    let shared = Arc::new(Shared { buf: Mutex::new((vec![], false)), cv: Condvar::new() });
    let s2 = shared.clone();
    let h = std::thread::spawn(move || {
        let mut b = [0u8; 65536];
        if !reader_delay.is_zero() {
            std::thread::sleep(reader_delay);
        }
        loop {
            let want = throttle.map(|t| t.0.min(b.len())).unwrap_or(b.len());
            match out.read(&mut b[..want]) {
                Ok(0) | Err(_) => break,
                Ok(n) => {
                    let mut g = s2.buf.lock().unwrap();
                    g.0.extend_from_slice(&b[..n]);
                    s2.cv.notify_all();
                }
            }
            if let Some((_, pause)) = throttle {
                std::thread::sleep(pause);
            }
        }
        let mut g = s2.buf.lock().unwrap();
        g.1 = true;
        s2.cv.notify_all();
    });
    Ok((child, shared, h))
}

fn count_responses(raw: &[u8], id: i64) -> usize {
    // cheap incremental check: complete frames only
    let mut b = raw;
    let mut n = 0;
    loop {
        let Some(h) = b.windows(4).position(|w| w == b"\r\n\r\n") else { break };
        let hdr = String::from_utf8_lossy(&b[..h]);
        let Some(len) = hdr.split("\r\n").find_map(|l| l.strip_prefix("Content-Length:").and_then(|v| v.trim().parse::<usize>().ok())) else { break };
        if b.len() < h + 4 + len {
            break;
        }
        if let Ok(v) = serde_json::from_slice::<Value>(&b[h + 4..h + 4 + len]) {
            if v.get("method").is_none() && v.get("id").and_then(|i| i.as_i64()) == Some(id) {
                n += 1;
            }
        }
        b = &b[h + 4 + len..];
    }
    n
}

fn finish(mut child: Child, shared: Arc<Shared>, reader: std::thread::JoinHandle<()>, limit: Duration, mut o: ProcOutcome) -> ProcOutcome {
    let start = Instant::now();
    loop {
        match child.try_wait() {
            Ok(Some(st)) => {
                o.exit_code = st.code();
                o.signaled = st.code().is_none();
                break;
            }
            Ok(None) => {
                if start.elapsed() > limit {
                    o.timed_out = true;
                    let _ = child.kill();
                    let _ = child.wait();
                    break;
                }
                std::thread::sleep(Duration::from_micros(300));
            }
            Err(_) => break,
        }
    }
    o.exit_ms = start.elapsed().as_millis();
    let _ = reader.join();
    o.raw = shared.buf.lock().unwrap().0.clone();
    match parse_frames(&o.raw) {
        Ok(f) => o.frames = f,
        Err(e) => o.frame_error = Some(e),
    }
    o
}

/// Slow client: everything is written in one go (from a thread of its own, the pipe to the
/// server may fill up as well), stdin is closed, and the output is read only after `delay`.
fn run_slow_reader_once(bytes: Vec<u8>, delay: Duration, throttle: Option<(usize, Duration)>, limit: Duration) -> ProcOutcome {
    let mut o = ProcOutcome::default();
    let Ok((mut child, shared, reader)) = spawn_delayed(delay, throttle) else {
        o.frame_error = Some("cannot spawn the binary".into());
        return o;
    };
    let mut stdin = child.stdin.take().unwrap();
    let w = std::thread::spawn(move || {
        let _ = stdin.write_all(&bytes).and_then(|_| stdin.flush());
        drop(stdin);
    });
    let o = finish(child, shared, reader, limit + delay, o);
    let _ = w.join();
    o
}

/// Lock-step client: every request is followed by a wait for its response; after the last
/// message stdin is closed. `limit`: time allowed between closing stdin and process exit.
fn run_lockstep_once(msgs: &[Value], limit: Duration, per_request: Duration) -> ProcOutcome {
    let mut o = ProcOutcome::default();
    let Ok((mut child, shared, reader)) = spawn() else {
        o.frame_error = Some("cannot spawn the binary".into());
        return o;
    };
    let mut stdin = child.stdin.take().unwrap();
    for (i, m) in msgs.iter().enumerate() {
        if stdin.write_all(&frame(m)).and_then(|_| stdin.flush()).is_err() {
            break; // process gone (exit)
        }
        o.written = i + 1;
        if let (Some(id), Some(_)) = (m.get("id").and_then(|i| i.as_i64()), m.get("method")) {
            let want = msgs[..=i].iter().filter(|x| x.get("method").is_some() && x.get("id").and_then(|v| v.as_i64()) == Some(id)).count();
            let deadline = Instant::now() + per_request;
            let mut g = shared.buf.lock().unwrap();
            loop {
                if count_responses(&g.0, id) >= want || g.1 {
                    break;
                }
                let now = Instant::now();
                if now >= deadline {
                    o.unanswered = Some(i);
                    break;
                }
                g = shared.cv.wait_timeout(g, deadline - now).unwrap().0;
            }
            if o.unanswered.is_some() {
                break;
            }
        } else if m.get("method").and_then(|v| v.as_str()) == Some("exit") {
            // give the process the chance to act on exit before more input is written
            let deadline = Instant::now() + per_request;
            while Instant::now() < deadline {
                if let Ok(Some(_)) = child.try_wait() {
                    break;
                }
                std::thread::sleep(Duration::from_micros(200));
            }
        }
    }
    drop(stdin);
    finish(child, shared, reader, limit, o)
}

/// Pipelined client: writes the chunks one after the other (optionally waiting until the pipe
/// has been drained by the server between chunks), then closes stdin.
fn run_chunks_once(chunks: &[Vec<u8>], wait_drained: bool, limit: Duration, per_request: Duration) -> ProcOutcome {
    use std::os::unix::io::AsRawFd;
    let mut o = ProcOutcome::default();
    let Ok((mut child, shared, reader)) = spawn() else {
        o.frame_error = Some("cannot spawn the binary".into());
        return o;
    };
    let mut stdin = child.stdin.take().unwrap();
    let fd = stdin.as_raw_fd();
    for (i, c) in chunks.iter().enumerate() {
        if stdin.write_all(c).and_then(|_| stdin.flush()).is_err() {
            break;
        }
        o.written = i + 1;
        if wait_drained {
            let deadline = Instant::now() + per_request;
            loop {
                let mut n: libc::c_int = 0;
                let r = unsafe { libc::ioctl(fd, libc::FIONREAD, &mut n) };
                if r != 0 || n == 0 || Instant::now() > deadline {
                    break;
                }
                std::thread::sleep(Duration::from_micros(50));
            }
            // the reader has taken the bytes out of the pipe; let it run into its next read
            std::thread::sleep(Duration::from_micros(300));
        }
    }
    drop(stdin);
    finish(child, shared, reader, limit, o)
}

// ------------------------------------------------------------------------------------------
// Wall-clock limits are the only way to see that a separate process hangs, and wall-clock time
// is the one thing the harness does not own: on an over-subscribed machine a healthy server can
// miss a limit. A run that misses one is therefore repeated *alone* (every other process-driven
// case of this check waits meanwhile) with CONFIRM_FACTOR times the limits, and only the
// outcome of that run is reported. A server that really hangs misses the longer limits as
// well; after CONFIRMED_ENOUGH confirmed hangs further ones are believed at once, so that a
// tree with many hanging cases does not serialise the whole check.
// ------------------------------------------------------------------------------------------
static GATE: std::sync::RwLock<()> = std::sync::RwLock::new(());
static CONFIRMED: std::sync::atomic::AtomicUsize = std::sync::atomic::AtomicUsize::new(0);
static REPEATED: std::sync::atomic::AtomicUsize = std::sync::atomic::AtomicUsize::new(0);
const CONFIRM_FACTOR: u32 = 6;
const CONFIRMED_ENOUGH: usize = 3;
/// Once that many runs have hung, the check stops with a `hang` violation for the run at hand
/// instead of waiting out the limits of thousands of further cases (a server that never
/// exits would otherwise keep a check busy for hours before it reports anything).
const HANG_STORM: usize = 12;
static HUNG: std::sync::atomic::AtomicUsize = std::sync::atomic::AtomicUsize::new(0);

fn count_hang(o: &ProcOutcome, describe: &dyn Fn() -> Value) {
    use std::sync::atomic::Ordering::Relaxed;
    if HUNG.fetch_add(1, Relaxed) + 1 >= HANG_STORM {
        let property = crate::common::current_property();
        let what = if o.timed_out { "the process did not end within the limit after its input was closed".to_string() } else { format!("message #{} got no response within the limit", o.unanswered.unwrap_or(0)) };
        let detail = format!("{} process runs of this check hung (each confirmed alone with longer limits, or after {} such confirmations); the run at hand: {}", HANG_STORM, CONFIRMED_ENOUGH, what);
        match crate::common::current_case() {
            Some((p, case)) => crate::common::hang_exit(&p, &case, &detail),
            None => crate::common::hang_exit(&property, &serde_json::json!({"mode": "process", "client_input": describe()}).to_string(), &detail),
        }
    }
}
const PER_REQUEST: Duration = Duration::from_secs(5);

/// number of runs that were repeated alone / that missed the limits again
pub fn confirmation_counts() -> (usize, usize) {
    (REPEATED.load(std::sync::atomic::Ordering::Relaxed), CONFIRMED.load(std::sync::atomic::Ordering::Relaxed))
}

fn confirmed(run: impl Fn(u32) -> ProcOutcome, describe: &dyn Fn() -> Value) -> ProcOutcome {
    use std::sync::atomic::Ordering::Relaxed;
    let o = {
        let _r = GATE.read().unwrap_or_else(|e| e.into_inner());
        run(1)
    };
    if !(o.timed_out || o.unanswered.is_some()) {
        return o;
    }
    if CONFIRMED.load(Relaxed) >= CONFIRMED_ENOUGH {
        count_hang(&o, describe);
        return o;
    }
    let _w = GATE.write().unwrap_or_else(|e| e.into_inner());
    REPEATED.fetch_add(1, Relaxed);
    let o = run(CONFIRM_FACTOR);
    if o.timed_out || o.unanswered.is_some() {
        CONFIRMED.fetch_add(1, Relaxed);
        count_hang(&o, describe);
    }
    o
}

/// Slow client: everything is written in one go (from a thread of its own, the pipe to the
/// server may fill up as well), stdin is closed, and the output is read only after `delay`.
pub fn run_slow_reader(bytes: Vec<u8>, delay: Duration, throttle: Option<(usize, Duration)>, limit: Duration) -> ProcOutcome {
    confirmed(|f| run_slow_reader_once(bytes.clone(), delay, throttle, limit * f), &|| Value::String(String::from_utf8_lossy(&bytes[..bytes.len().min(20_000)]).into_owned()))
}

/// Lock-step client: every request is followed by a wait for its response; after the last
/// message stdin is closed. `limit`: time allowed between closing stdin and process exit.
pub fn run_lockstep(msgs: &[Value], limit: Duration) -> ProcOutcome {
    confirmed(|f| run_lockstep_once(msgs, limit * f, PER_REQUEST * f), &|| Value::Array(msgs.to_vec()))
}

/// Pipelined client: writes the chunks one after the other (optionally waiting until the pipe
/// has been drained by the server between chunks), then closes stdin.
pub fn run_chunks(chunks: &[Vec<u8>], wait_drained: bool, limit: Duration) -> ProcOutcome {
    confirmed(|f| run_chunks_once(chunks, wait_drained, limit * f, PER_REQUEST * f), &|| Value::Array(chunks.iter().map(|c| Value::String(String::from_utf8_lossy(&c[..c.len().min(20_000)]).into_owned())).collect()))
}
