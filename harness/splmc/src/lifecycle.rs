//! Reference automaton of the LSP lifecycle (C18): which response every request of a message
//! history must get and how the process must end.  Where the property is silent the model is
//! nondeterministic (a set of allowed answers).
use crate::session::{notification, request, URI};
use serde_json::{json, Value};

#[derive(Clone, Copy, Debug, PartialEq, Eq, Hash)]
pub enum Msg {
    Initialize,
    Initialized,
    Supported,
    UnknownRequest,
    /// an unknown request whose method starts with `$/` (must be answered like any other
    /// unknown request: MethodNotFound)
    DollarRequest,
    DocNotification,
    UnknownNotification,
    Shutdown,
    Exit,
}
pub const ALPHABET: &[Msg] = &[
    Msg::Initialize,
    Msg::Initialized,
    Msg::Supported,
    Msg::UnknownRequest,
    Msg::DollarRequest,
    Msg::DocNotification,
    Msg::UnknownNotification,
    Msg::Shutdown,
    Msg::Exit,
];

pub const SERVER_NOT_INITIALIZED: i64 = -32002;
pub const INVALID_REQUEST: i64 = -32600;
pub const METHOD_NOT_FOUND: i64 = -32601;

#[derive(Clone, Debug, PartialEq, Eq)]
pub enum Answer {
    /// result of initialize: an object with capabilities
    InitializeResult,
    /// result of a served feature request (any non-error result)
    Served,
    /// `null` result (shutdown)
    NullResult,
    Error(i64),
}

#[derive(Clone, Debug)]
pub struct Expectation {
    /// per request in history order: (id, allowed answers)
    pub responses: Vec<(i64, Vec<Answer>)>,
    /// Some(code) when the history contains an `exit` that ends the process
    pub exit_code: Option<i32>,
    /// number of messages consumed before the process ends (all, when no exit)
    pub consumed: usize,
}

#[derive(Clone, Copy, Debug, PartialEq, Eq)]
enum Phase {
    Uninitialised,
    InitAnswered,
    Running,
    ShuttingDown,
}

pub fn is_request(m: Msg) -> bool {
    matches!(m, Msg::Initialize | Msg::Supported | Msg::UnknownRequest | Msg::DollarRequest | Msg::Shutdown)
}

/// JSON for message #i of a history (ids = index + 1)
pub fn to_json(m: Msg, i: usize) -> Value {
    let id = i as i64 + 1;
    match m {
        Msg::Initialize => request(id, "initialize", json!({"capabilities": {"textDocument": {"publishDiagnostics": {}}}})),
        Msg::Initialized => notification("initialized", json!({})),
        Msg::Supported => request(id, "textDocument/foldingRange", json!({"textDocument": {"uri": URI}})),
        Msg::UnknownRequest => request(id, "workspace/unknownThing", json!({})),
        Msg::DollarRequest => request(id, "$/unknownRequest", json!({"x": 1})),
        Msg::DocNotification => notification("textDocument/didOpen", json!({"textDocument": {"uri": URI, "languageId": "spl", "version": 1, "text": "proc main() { }\n"}})),
        Msg::UnknownNotification => notification("$/unknownNote", json!({"x": 1})),
        Msg::Shutdown => request(id, "shutdown", Value::Null),
        Msg::Exit => notification("exit", Value::Null),
    }
}

pub fn expect(history: &[Msg]) -> Expectation {
    let mut phase = Phase::Uninitialised;
    let mut responses = vec![];
    for (i, m) in history.iter().enumerate() {
        let id = i as i64 + 1;
        match phase {
            Phase::Uninitialised => match m {
                Msg::Initialize => {
                    responses.push((id, vec![Answer::InitializeResult]));
                    phase = Phase::InitAnswered;
                }
                Msg::Exit => return Expectation { responses, exit_code: Some(1), consumed: i + 1 },
                m if is_request(*m) => responses.push((id, vec![Answer::Error(SERVER_NOT_INITIALIZED)])),
                _ => {}
            },
            Phase::InitAnswered => match m {
                // a second initialize is rejected with InvalidRequest
                Msg::Initialize => responses.push((id, vec![Answer::Error(INVALID_REQUEST)])),
                Msg::Initialized => phase = Phase::Running,
                Msg::Exit => return Expectation { responses, exit_code: Some(1), consumed: i + 1 },
                // the property is silent about other requests between initialize and
                // initialized: rejected as not (yet) initialised, or served
                Msg::Supported => responses.push((id, vec![Answer::Error(SERVER_NOT_INITIALIZED), Answer::Served])),
                Msg::UnknownRequest | Msg::DollarRequest => responses.push((id, vec![Answer::Error(SERVER_NOT_INITIALIZED), Answer::Error(METHOD_NOT_FOUND)])),
                Msg::Shutdown => {
                    // either rejected (and the phase stays) or accepted: both continuations are
                    // explored by `expect_alternatives`; the default model takes "rejected"
                    responses.push((id, vec![Answer::Error(SERVER_NOT_INITIALIZED)]));
                }
                _ => {}
            },
            Phase::Running => match m {
                Msg::Initialize => responses.push((id, vec![Answer::Error(INVALID_REQUEST)])),
                Msg::Supported => responses.push((id, vec![Answer::Served])),
                Msg::UnknownRequest | Msg::DollarRequest => responses.push((id, vec![Answer::Error(METHOD_NOT_FOUND)])),
                Msg::Shutdown => {
                    responses.push((id, vec![Answer::NullResult]));
                    phase = Phase::ShuttingDown;
                }
                Msg::Exit => return Expectation { responses, exit_code: Some(1), consumed: i + 1 },
                _ => {}
            },
            Phase::ShuttingDown => match m {
                Msg::Exit => return Expectation { responses, exit_code: Some(0), consumed: i + 1 },
                m if is_request(*m) => responses.push((id, vec![Answer::Error(INVALID_REQUEST)])),
                _ => {}
            },
        }
    }
    Expectation { responses, exit_code: None, consumed: history.len() }
}

pub fn classify(resp: &Value) -> Option<Answer> {
    if let Some(e) = resp.get("error") {
        return e.get("code").and_then(|c| c.as_i64()).map(Answer::Error);
    }
    let r = resp.get("result")?;
    if r.is_null() {
        return Some(Answer::NullResult);
    }
    if r.get("capabilities").is_some() {
        return Some(Answer::InitializeResult);
    }
    Some(Answer::Served)
}

/// Compares the response frames (in order) with the expectation. Err(kind, detail).
pub fn check_responses(frames: &[Value], exp: &Expectation, require_all: bool) -> Result<(), (String, String)> {
    let resp: Vec<&Value> = frames.iter().filter(|f| f.get("method").is_none() && f.get("id").is_some()).collect();
    for (k, r) in resp.iter().enumerate() {
        if r.get("jsonrpc").and_then(|v| v.as_str()) != Some("2.0") || !(r.get("result").is_some() ^ r.get("error").is_some()) {
            return Err(("malformed-response".into(), format!("{}", r)));
        }
        let Some((id, allowed)) = exp.responses.get(k) else {
            return Err(("surplus-response".into(), format!("response #{} {} has no request", k, r)));
        };
        if r.get("id").and_then(|v| v.as_i64()) != Some(*id) {
            return Err(("response-order-or-id".into(), format!("response #{} carries id {:?}, expected {}", k, r.get("id"), id)));
        }
        let got = classify(r);
        let ok = match &got {
            Some(Answer::Served) => allowed.contains(&Answer::Served),
            Some(a) => allowed.contains(a) || (*a == Answer::NullResult && allowed.contains(&Answer::Served) && false),
            None => false,
        };
        if !ok {
            return Err((format!("wrong-answer:{:?}-instead-of-{:?}", got, allowed), format!("request id {}: {}", id, r)));
        }
    }
    if require_all && resp.len() < exp.responses.len() {
        return Err(("missing-response".into(), format!("{} responses for {} requests; first unanswered id {}", resp.len(), exp.responses.len(), exp.responses[resp.len()].0)));
    }
    Ok(())
}

pub fn all_histories(max_len: usize) -> Vec<Vec<Msg>> {
    let mut out = vec![vec![]];
    let mut frontier = vec![vec![]];
    for _ in 0..max_len {
        let mut next = vec![];
        for h in &frontier {
            for m in ALPHABET {
                let mut x: Vec<Msg> = h.clone();
                x.push(*m);
                next.push(x);
            }
        }
        out.extend(next.iter().cloned());
        frontier = next;
    }
    out
}

pub fn class_string(h: &[Msg]) -> String {
    h.iter()
        .map(|m| match m {
            Msg::Initialize => "I",
            Msg::Initialized => "i",
            Msg::Supported => "R",
            Msg::UnknownRequest => "U",
            Msg::DollarRequest => "$",
            Msg::DocNotification => "D",
            Msg::UnknownNotification => "n",
            Msg::Shutdown => "S",
            Msg::Exit => "X",
        })
        .collect()
}
