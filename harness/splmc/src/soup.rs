//! Bounded alphabets for inputs that are not programs (DESIGN 3.2).

/// One character per lexer look-ahead class / boundary case.
pub const SIGMA_CHAR_QUICK: &[&str] = &[
    "a", "0", "x", "/", "\n", "'", "<", "=", ":", " ", "i", "f", "\u{e9}", "\\", "n",
];
/// Additional characters of the thorough tier: 3- and 4-byte characters, CR, `_`, `#`, `>`,
/// and U+0141 whose low byte is ASCII `A` (the lexer truncates chars to u8 in one place).
pub const SIGMA_CHAR_EXTRA: &[&str] = &["\u{20ac}", "\u{1f600}", "\r", "_", "#", ">", "\u{141}", "1", "F"];

/// Characters that Unicode treats as white space or as invisible, but SPL does not: only
/// blank, tab, CR and LF separate tokens, everything else is an unknown character
/// (byte order mark, no-break space, form feed, line separator), mixed with a few ordinary ones.
pub const SIGMA_CHAR_SPACE_LIKE: &[&str] = &["\u{feff}", "\u{a0}", "\u{c}", "\u{2028}", "a", "0", "/", "\n", " ", "'", "x"];

pub fn sigma_char(thorough: bool) -> Vec<&'static str> {
    let mut v = SIGMA_CHAR_QUICK.to_vec();
    if thorough {
        v.extend_from_slice(SIGMA_CHAR_EXTRA);
    }
    v
}

/// Token-level alphabet (33 lexemes): every keyword, every punctuation class, identifiers (plain, `main`,
/// a builtin procedure, the builtin type), literals of every kind, a comment line.
pub const SIGMA_TOK: &[&str] = &[
    "proc", "type", "var", "ref", "if", "else", "while", "array", "of", // keywords
    "(", ")", "[", "]", "{", "}", // brackets
    "=", "<", ":=", ":", ",", ";", "+", "-", "*", // operators / punctuation
    "a", "main", "printi", "int", // identifiers
    "1", "0x1", "'c'", "'\u{20ac}'", // literals (the last one with a character above U+00FF)
    "// c\n", // comment
];

/// All strings of length 0..=max over `alpha` (concatenation of alphabet members),
/// enumerated in length-lexicographic order by index.
pub struct Strings<'a> {
    pub alpha: &'a [&'a str],
    pub max: usize,
    /// number of strings of each length 0..=max, cumulative offsets
    offsets: Vec<u64>,
}

impl<'a> Strings<'a> {
    pub fn new(alpha: &'a [&'a str], max: usize) -> Self {
        let mut offsets = vec![0u64];
        let mut pow = 1u64;
        for _ in 0..=max {
            let last = *offsets.last().unwrap();
            offsets.push(last + pow);
            pow *= alpha.len() as u64;
        }
        Strings { alpha, max, offsets }
    }
    pub fn count(&self) -> u64 {
        *self.offsets.last().unwrap()
    }
    /// the symbols of the idx-th string
    pub fn symbols(&self, idx: u64) -> Vec<&'a str> {
        let len = (0..=self.max)
            .find(|&l| idx < self.offsets[l + 1])
            .expect("index out of range");
        let mut r = idx - self.offsets[len];
        let k = self.alpha.len() as u64;
        let mut out = vec![""; len];
        for i in (0..len).rev() {
            out[i] = self.alpha[(r % k) as usize];
            r /= k;
        }
        out
    }
    pub fn get(&self, idx: u64) -> String {
        self.symbols(idx).concat()
    }
    /// token soup: symbols joined by a single blank where needed (always, for simplicity)
    pub fn get_joined(&self, idx: u64, sep: &str) -> String {
        self.symbols(idx).join(sep)
    }
}

pub fn char_boundaries(s: &str) -> Vec<usize> {
    let mut v: Vec<usize> = s.char_indices().map(|(i, _)| i).collect();
    v.push(s.len());
    v
}
