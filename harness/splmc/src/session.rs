//! Driving the *unmodified* `LanguageServer::run()` of lsp4spl in process (compiled against the
//! tokio shim) with in-memory stdin/stdout, and the release binary as a process.
use crate::common::guarded;
use serde_json::{json, Value};
use std::collections::BTreeMap;

pub fn frame(v: &Value) -> Vec<u8> {
    let body = serde_json::to_string(v).unwrap();
    let mut out = format!("Content-Length: {}\r\n\r\n", body.len()).into_bytes();
    out.extend_from_slice(body.as_bytes());
    out
}

pub fn request(id: i64, method: &str, params: Value) -> Value {
    json!({"jsonrpc": "2.0", "id": id, "method": method, "params": params})
}
pub fn notification(method: &str, params: Value) -> Value {
    json!({"jsonrpc": "2.0", "method": method, "params": params})
}

/// Independent frame reader for the server's output: every frame must carry a
/// Content-Length equal to the byte length of its body, and the body must be JSON.
pub fn parse_frames(mut b: &[u8]) -> Result<Vec<Value>, String> {
    let mut out = vec![];
    while !b.is_empty() {
        let hdr_end = b
            .windows(4)
            .position(|w| w == b"\r\n\r\n")
            .ok_or_else(|| format!("incomplete header: {:?}", String::from_utf8_lossy(&b[..b.len().min(60)])))?;
        let hdr = std::str::from_utf8(&b[..hdr_end]).map_err(|_| "header is not UTF-8".to_string())?;
        let mut len = None;
        for line in hdr.split("\r\n") {
            if let Some(v) = line.strip_prefix("Content-Length:") {
                len = v.trim().parse::<usize>().ok();
            }
        }
        let len = len.ok_or_else(|| format!("no Content-Length in {:?}", hdr))?;
        let body_start = hdr_end + 4;
        if b.len() < body_start + len {
            return Err(format!("frame announces {} bytes, only {} available", len, b.len() - body_start));
        }
        let body = &b[body_start..body_start + len];
        let v: Value = serde_json::from_slice(body)
            .map_err(|e| format!("body is not JSON ({}): {:?}", e, String::from_utf8_lossy(body)))?;
        out.push(v);
        b = &b[body_start + len..];
    }
    Ok(out)
}

#[derive(Debug, Clone, Default)]
pub struct Outcome {
    /// raw output bytes
    pub raw: Vec<u8>,
    /// decoded frames in order (empty when `frame_error` is set)
    pub frames: Vec<Value>,
    pub frame_error: Option<String>,
    /// Some(message) when run() returned Err or panicked
    pub error: Option<String>,
}

impl Outcome {
    pub fn responses(&self) -> BTreeMap<i64, Value> {
        self.frames
            .iter()
            .filter(|f| f.get("id").is_some() && f.get("method").is_none())
            .filter_map(|f| f["id"].as_i64().map(|i| (i, f.clone())))
            .collect()
    }
    pub fn response_ids(&self) -> Vec<i64> {
        self.frames
            .iter()
            .filter(|f| f.get("id").is_some() && f.get("method").is_none())
            .filter_map(|f| f["id"].as_i64())
            .collect()
    }
    pub fn notifications(&self, method: &str) -> Vec<Value> {
        self.frames
            .iter()
            .filter(|f| f.get("method").and_then(|m| m.as_str()) == Some(method))
            .cloned()
            .collect()
    }
}

fn server() -> lspcore::server::LanguageServer {
    lspcore::server::LanguageServer::setup(None, lsp_types::ServerCapabilities::default())
}

/// Run one complete session (input bytes, then end of input) through the real `run()` on a
/// current-thread tokio runtime; stdin delivers everything in one read unless `chunks` is given.
pub fn run_inproc_chunks(chunks: &[Vec<u8>]) -> Outcome {
    // a session that never returns (deadlock between the tasks, endless loop) is a hang of the
    // server, reported by the watchdog with the session's input
    let _g = crate::common::watch_limit(&crate::common::current_property(), 60, || {
        let all: Vec<u8> = chunks.concat();
        serde_json::json!({"session_bytes": String::from_utf8_lossy(&all[..all.len().min(20000)]), "chunks": chunks.len()}).to_string()
    });
    vtokio::verif::set_controlled(false);
    vtokio::verif::reset();
    for c in chunks {
        vtokio::verif::stdin_push(c.clone());
    }
    vtokio::verif::stdin_close();
    let r = guarded(|| {
        let rt = rtokio::runtime::Builder::new_current_thread()
            .build()
            .expect("runtime");
        rt.block_on(async { server().run().await })
    });
    let raw = vtokio::verif::stdout_snapshot();
    let error = match r {
        Ok(Ok(())) => None,
        Ok(Err(e)) => Some(format!("run() returned Err: {:#}", e)),
        Err(p) => Some(format!("panic: {}", p)),
    };
    let (frames, frame_error) = match parse_frames(&raw) {
        Ok(f) => (f, None),
        Err(e) => (vec![], Some(e)),
    };
    Outcome { raw, frames, frame_error, error }
}

pub fn run_inproc(input: &[u8]) -> Outcome {
    run_inproc_chunks(&[input.to_vec()])
}

/// Builder for the common shape: initialize, initialized, messages..., end of input.
pub struct Session {
    pub msgs: Vec<Value>,
    next_id: i64,
}

pub const URI: &str = "file:///a.spl";

impl Session {
    pub fn new(diagnostics: bool) -> Self {
        Self::with_capabilities(if diagnostics { json!({"textDocument": {"publishDiagnostics": {}}}) } else { json!({}) })
    }
    /// initialize with the given client capabilities object
    pub fn with_capabilities(caps: Value) -> Self {
        Session {
            msgs: vec![
                request(0, "initialize", json!({"capabilities": caps})),
                notification("initialized", json!({})),
            ],
            next_id: 1,
        }
    }
    pub fn open(&mut self, uri: &str, text: &str) {
        self.msgs.push(notification(
            "textDocument/didOpen",
            json!({"textDocument": {"uri": uri, "languageId": "spl", "version": 1, "text": text}}),
        ));
    }
    pub fn change(&mut self, uri: &str, changes: Value) {
        self.msgs.push(notification(
            "textDocument/didChange",
            json!({"textDocument": {"uri": uri, "version": 2}, "contentChanges": changes}),
        ));
    }
    pub fn close(&mut self, uri: &str) {
        self.msgs.push(notification("textDocument/didClose", json!({"textDocument": {"uri": uri}})));
    }
    pub fn request(&mut self, method: &str, params: Value) -> i64 {
        let id = self.next_id;
        self.next_id += 1;
        self.msgs.push(request(id, method, params));
        id
    }
    pub fn pos_request(&mut self, method: &str, uri: &str, line: u32, character: u32) -> i64 {
        let mut params = json!({"textDocument": {"uri": uri}, "position": {"line": line, "character": character}});
        match method {
            "textDocument/references" => {
                params["context"] = json!({"includeDeclaration": true});
            }
            "textDocument/rename" => {
                params["newName"] = json!("zz9");
            }
            _ => {}
        }
        self.request(method, params)
    }
    pub fn bytes(&self) -> Vec<u8> {
        self.msgs.iter().flat_map(|m| frame(m)).collect()
    }
    pub fn run(&self) -> Outcome {
        run_inproc(&self.bytes())
    }
}

pub const POSITION_METHODS: &[&str] = &[
    "textDocument/declaration",
    "textDocument/definition",
    "textDocument/typeDefinition",
    "textDocument/implementation",
    "textDocument/references",
    "textDocument/hover",
    "textDocument/rename",
    "textDocument/prepareRename",
    "textDocument/completion",
    "textDocument/signatureHelp",
];
pub const DOCUMENT_METHODS: &[&str] = &[
    "textDocument/foldingRange",
    "textDocument/semanticTokens/full",
    "textDocument/formatting",
];

pub fn doc_request_params(method: &str, uri: &str) -> Value {
    match method {
        "textDocument/formatting" => json!({"textDocument": {"uri": uri}, "options": {"tabSize": 4, "insertSpaces": true}}),
        _ => json!({"textDocument": {"uri": uri}}),
    }
}
