//! Concrete bounded program families shared by the checks (built from gen::*).
use crate::common::Tier;
use crate::gen::ast::*;
use crate::gen::enumerate::*;
use crate::gen::families::*;
use std::sync::Arc;

#[derive(Clone)]
pub struct Item {
    pub family: &'static str,
    pub program: RProgram,
    /// index of the global declaration that holds the focus (comment gaps are enumerated there)
    pub focus_decl: usize,
}

/// A well-typed program just beyond the small bounds of the other families: `n_types` type
/// declarations, a procedure with six parameters, `n_vars` variables (one with a 300-character
/// name), `n_stmts` statements in main (assignments, calls with six arguments, a ten-level
/// else-if chain, blocks nested eight deep, a six-dimensional array access, a hex literal with
/// many digits). With the defaults main has more than 255 tokens and the text more than 4 KiB.
pub fn scale_program(n_types: usize, n_vars: usize, n_stmts: usize) -> RProgram {
    let long_name: String = std::iter::once('x').chain(std::iter::repeat('a').take(299)).collect();
    let mut decls = vec![RDecl::Type { name: "T0".into(), ty: arr(2, tname("int")) }];
    for k in 1..n_types {
        let ty = if k % 2 == 1 { tname(&format!("T{}", k - 1)) } else { arr(2, tname("int")) };
        decls.push(RDecl::Type { name: format!("T{}", k), ty });
    }
    let d6 = arr(2, arr(2, arr(2, arr(2, arr(2, arr(2, tname("int")))))));
    decls.push(RDecl::Type { name: "D6".into(), ty: d6 });
    let d9 = arr(2, arr(2, arr(2, arr(2, arr(2, arr(2, arr(2, arr(2, arr(2, tname("int"))))))))));
    decls.push(RDecl::Type { name: "D9".into(), ty: d9 });
    let prm = |n: &str, r: bool, t: RType| RParam { is_ref: r, name: n.into(), ty: t };
    decls.push(RDecl::Proc {
        name: "six".into(),
        // (the signature is wider than 100 columns)
        params: vec![
            prm("first_parameter_a1", false, tname("int")),
            prm("second_parameter_a2", false, tname("int")),
            prm("third_parameter_a3", true, tname("int")),
            prm("fourth_parameter_a4", true, tname("T0")),
            prm("fifth_parameter_a5", true, tname("D6")),
            prm("sixth_parameter_a6", false, tname("int")),
        ],
        vars: vec![],
        body: vec![RStmt::Assign(vname("third_parameter_a3"), bin(Op::Add, bin(Op::Add, evar("first_parameter_a1"), evar("second_parameter_a2")), evar("sixth_parameter_a6")))],
    });
    let mut vars: Vec<RVarDecl> = (0..n_vars).map(|i| RVarDecl { name: format!("v{}", i), ty: tname("int") }).collect();
    vars.push(RVarDecl { name: long_name.clone(), ty: tname("int") });
    vars.push(RVarDecl { name: "t0".into(), ty: tname("T0") });
    vars.push(RVarDecl { name: "d".into(), ty: tname("D6") });
    vars.push(RVarDecl { name: "nine".into(), ty: tname("D9") });
    for l in 1..=6 {
        vars.push(RVarDecl { name: "s".repeat(l), ty: tname("int") });
    }
    let v = |i: usize| format!("v{}", i % n_vars.max(1));
    let c = |i: usize| bin(Op::Lst, evar(&v(i)), eint(i as u32));
    let mut body: Vec<RStmt> = vec![];
    for i in 0..n_stmts {
        let st = match i % 10 {
            3 => RStmt::Call("six".into(), vec![eint(i as u32), evar(&v(i)), evar(&v(i + 1)), evar("t0"), evar("d"), bin(Op::Mul, evar(&long_name), eint(2))]),
            7 => RStmt::Assign(idx(vname("t0"), eint((i % 2) as u32)), evar(&v(i))),
            // (more than 48 parenthesised expressions in one document)
            _ => RStmt::Assign(vname(&v(i)), bin(Op::Mul, RExpr::Paren(Arc::new(bin(Op::Add, evar(&v(i + 1)), eint(i as u32)))), eint(1))),
        };
        body.push(st);
    }
    // ten-level else-if chain
    let mut chain = RStmt::Assign(vname(&v(0)), eint(10));
    for k in (0..10).rev() {
        chain = RStmt::If(c(k), Arc::new(RStmt::Assign(vname(&v(k)), eint(k as u32))), Some(Arc::new(chain)));
    }
    body.push(chain);
    // blocks / loops nested eight deep
    let mut nest = RStmt::Assign(vname(&long_name), RExpr::Int(Lit::Hex("00000000000000000000001F".into())));
    for k in 0..8 {
        nest = match k % 3 {
            0 => RStmt::Block(vec![nest]),
            1 => RStmt::While(c(k), Arc::new(nest)),
            _ => RStmt::If(c(k), Arc::new(RStmt::Block(vec![nest])), None),
        };
    }
    body.push(nest);
    // six index expressions
    let mut six_d = vname("d");
    for k in 0..6 {
        six_d = idx(six_d, eint((k % 2) as u32));
    }
    body.push(RStmt::Assign(six_d, evar(&long_name)));
    let mut nine_d = vname("nine");
    for k in 0..9 {
        nine_d = idx(nine_d, eint((k % 2) as u32));
    }
    body.push(RStmt::Assign(nine_d, eint(9)));
    // an assignment of some 370 columns: a sum of sixty blank character literals
    let mut sum = RExpr::Int(Lit::Chr(' '));
    for _ in 0..59 {
        sum = bin(Op::Add, sum, RExpr::Int(Lit::Chr(' ')));
    }
    body.push(RStmt::Assign(vname(&v(1)), sum.clone()));
    // ... and the same sum assigned to names of one to six letters, so that the blank inside a
    // literal lands on every column modulo the period of the line
    for l in 1..=6 {
        body.push(RStmt::Assign(vname(&"s".repeat(l)), sum.clone()));
    }
    decls.push(RDecl::Proc { name: "main".into(), params: vec![], vars, body });
    RProgram { decls }
}

/// families that sampling checks never thin out (small, each member is there for a reason)
pub fn always_included(family: &str) -> bool {
    matches!(family, "G1-whole-programs" | "names" | "many-parameters" | "redeclarations" | "scale")
}

fn main_index(p: &RProgram) -> usize {
    p.decls
        .iter()
        .position(|d| matches!(d, RDecl::Proc { name, .. } if name == "main"))
        .unwrap_or(0)
}

fn push_stmts(out: &mut Vec<Item>, family: &'static str, body: Vec<RStmt>, pl: Placement) {
    let p = program_with_main(body, pl);
    let f = main_index(&p);
    out.push(Item { family, program: p, focus_decl: f });
}

/// Syntactically valid programs (typed or not): the family of C04 / C09-C11 / C17.
pub fn syntactic_family(tier: Tier) -> Vec<Item> {
    let mut out = vec![];
    // expressions, exhaustive by token count, as assignment rhs
    let mut en = Enumerator::new(typed_pools());
    for e in en.exprs_upto(tier.pick(6, 8)) {
        push_stmts(&mut out, "expr@assign-rhs", vec![expr_in_ctx(&e, ExprCtx::AssignRhs)], Placement::MainLast);
    }
    // ... in every other expression context, one size smaller
    let small = en.exprs_upto(tier.pick(4, 6));
    for c in EXPR_CTXS.iter().skip(1) {
        for e in &small {
            push_stmts(&mut out, "expr@contexts", vec![expr_in_ctx(e, *c)], Placement::MainMiddle);
        }
    }
    // all operators and literal spellings on small shapes
    let mut pools = typed_pools().full_ops();
    pools.lits = vec![
        Lit::Dec(0),
        Lit::Dec(2147483647),
        Lit::Hex("1".into()),
        Lit::Hex("0aF".into()),
        Lit::Hex("FFFFFFFF".into()),
        Lit::Chr('a'),
        Lit::Chr('\n'),
        Lit::Chr(' '),
        Lit::Chr('"'),
        Lit::Chr('\\'),
        Lit::Chr('\''),
        Lit::Chr('\t'),
    ];
    pools.vars = vec!["i".into()];
    pools.arrays = vec![];
    let mut en2 = Enumerator::new(pools);
    for e in en2.exprs_upto(tier.pick(3, 5)) {
        push_stmts(&mut out, "expr@operators+literals", vec![expr_in_ctx(&e, ExprCtx::AssignRhs)], Placement::MainLast);
    }
    // statements, exhaustive by token count, at body level
    let mut spools = typed_pools();
    spools.vars = vec!["i".into(), "a".into()];
    spools.arrays = vec!["a".into()];
    spools.add_ops = vec![Op::Add];
    spools.cmp_ops = vec![Op::Lst];
    spools.unary = false;
    spools.procs = vec![("q".into(), vec![0, 1, 2, 3]), ("printi".into(), vec![1])];
    let mut en3 = Enumerator::new(spools);
    let stmts = en3.stmts_upto(tier.pick(8, 10));
    for s in &stmts {
        push_stmts(&mut out, "stmt@body", vec![(**s).clone()], Placement::MainLast);
    }
    let small_stmts = en3.stmts_upto(tier.pick(6, 8));
    for c in STMT_CTXS.iter().skip(1) {
        for s in &small_stmts {
            if let Some(body) = stmt_in_ctx(s, *c) {
                // an open if directly in front of `else` is not a derivation
                push_stmts(&mut out, "stmt@contexts", body, Placement::MainMiddle);
            }
        }
    }
    // dangling-else chains and deep nesting, larger but structured
    for depth in 1..=tier.pick(4, 6) {
        let mut s = RStmt::Empty;
        for k in 0..depth {
            s = if k % 2 == 0 {
                RStmt::If(bin(Op::Lst, evar("i"), eint(1)), Arc::new(s), None)
            } else {
                RStmt::If(bin(Op::Lst, evar("i"), eint(1)), Arc::new(RStmt::Empty), Some(Arc::new(s)))
            };
        }
        push_stmts(&mut out, "stmt@else-chains", vec![s.clone()], Placement::MainLast);
        // the same chain with differently shaped conditions and literal kinds per level
        let mut v = RStmt::Assign(vname("i"), RExpr::Int(Lit::Chr('a')));
        for k in 0..depth {
            let c = match k % 3 {
                0 => bin(Op::Lst, evar("i"), RExpr::Int(Lit::Hex("1F".into()))),
                1 => bin(Op::Gre, RExpr::Paren(Arc::new(eint(1))), RExpr::Var(idx(vname("a"), evar("i")))),
                _ => bin(Op::Neq, RExpr::Neg(Arc::new(evar("j"))), bin(Op::Mul, eint(2), evar("i"))),
            };
            v = RStmt::If(c, Arc::new(RStmt::Call("printi".into(), vec![RExpr::Int(Lit::Chr('x'))])), Some(Arc::new(v)));
        }
        push_stmts(&mut out, "stmt@else-chains", vec![v], Placement::MainMiddle);
        let w = RStmt::While(eint(1), Arc::new(RStmt::Block(vec![s.clone(), s])));
        push_stmts(&mut out, "stmt@else-chains", vec![w], Placement::MainLast);
    }
    // type expressions in type declarations, parameters and variables
    let mut tpools = typed_pools();
    tpools.type_names = vec!["int".into(), "A".into(), "M".into()];
    tpools.array_sizes = vec![Lit::Dec(2), Lit::Hex("10".into()), Lit::Chr('a')];
    let mut en4 = Enumerator::new(tpools);
    for t in en4.types_upto(tier.pick(11, 16)) {
        let mut decls = prelude_types();
        decls.push(RDecl::Type { name: "T".into(), ty: (*t).clone() });
        decls.push(RDecl::Proc {
            name: "main".into(),
            params: vec![],
            vars: vec![RVarDecl { name: "v".into(), ty: (*t).clone() }],
            body: vec![],
        });
        decls.push(RDecl::Proc {
            name: "p".into(),
            params: vec![
                RParam { is_ref: true, name: "x".into(), ty: (*t).clone() },
                RParam { is_ref: false, name: "y".into(), ty: tname("int") },
            ],
            vars: vec![],
            body: vec![],
        });
        out.push(Item { family: "types", program: RProgram { decls }, focus_decl: 2 });
    }
    // identifiers that start with a keyword (continued by `_`, a digit or a letter), that are
    // just underscores, and that contain digits: one well-typed program, two declaration orders
    {
        let v = |n: &str, t: RType| RVarDecl { name: n.into(), ty: t };
        let decls = vec![
            RDecl::Type { name: "type_t".into(), ty: arr(2, tname("int")) },
            RDecl::Type { name: "of_".into(), ty: tname("type_t") },
            RDecl::Proc {
                name: "proc_p".into(),
                params: vec![RParam { is_ref: true, name: "ref_x".into(), ty: tname("type_t") }, RParam { is_ref: false, name: "var_y".into(), ty: tname("int") }],
                vars: vec![
                    // the base type of an anonymous array type, named like a later variable
                    v("wide", arr(2, tname("type_t"))),
                    v("array_a", tname("int")),
                    v("if_count", tname("int")),
                    v("else1", tname("int")),
                    v("while_", tname("int")),
                    v("_", tname("int")),
                    v("__x9", tname("int")),
                    v("ifs", tname("int")),
                    v("typeB", tname("of_")),
                    // a variable named like its own type (its type expression does not see it yet)
                    v("of_", tname("of_")),
                    v("type_t", tname("int")),
                ],
                body: vec![
                    RStmt::Assign(vname("if_count"), bin(Op::Add, evar("var_y"), evar("else1"))),
                    RStmt::Assign(vname("while_"), RExpr::Var(idx(vname("ref_x"), eint(0)))),
                    RStmt::Assign(vname("array_a"), bin(Op::Mul, evar("_"), evar("__x9"))),
                    RStmt::Assign(vname("ifs"), RExpr::Var(idx(vname("typeB"), eint(1)))),
                    RStmt::If(bin(Op::Lst, evar("ifs"), evar("else1")), Arc::new(RStmt::Call("proc_p".into(), vec![evar("typeB"), evar("_")])), None),
                ],
            },
            RDecl::Proc { name: "main".into(), params: vec![], vars: vec![v("int_", tname("type_t"))], body: vec![RStmt::Call("proc_p".into(), vec![evar("int_"), eint(1)])] },
        ];
        out.push(Item { family: "names", program: RProgram { decls: decls.clone() }, focus_decl: 2 });
        let mut d2 = decls;
        d2.swap(2, 3);
        out.push(Item { family: "names", program: RProgram { decls: d2 }, focus_decl: 3 });
    }
    // procedures with four and five parameters (the formatter lays more than three parameters
    // out one per line), calls with as many arguments, a parameterless call
    {
        let prm = |n: &str, r: bool, t: RType| RParam { is_ref: r, name: n.into(), ty: t };
        let mut decls = prelude_types();
        decls.push(RDecl::Proc {
            name: "four".into(),
            params: vec![prm("p1", false, tname("int")), prm("p2", true, tname("int")), prm("p3", true, tname("A")), prm("p4", true, tname("M"))],
            vars: vec![],
            body: vec![RStmt::Assign(vname("p2"), bin(Op::Add, evar("p1"), RExpr::Var(idx(vname("p3"), eint(0)))))],
        });
        decls.push(RDecl::Proc {
            name: "five".into(),
            params: vec![prm("p1", false, tname("int")), prm("p2", false, tname("int")), prm("p3", false, tname("int")), prm("p4", true, tname("M")), prm("p5", true, tname("int"))],
            vars: vec![RVarDecl { name: "w".into(), ty: tname("M") }],
            body: vec![
                RStmt::Call("four".into(), vec![evar("p1"), evar("p5"), RExpr::Var(idx(vname("p4"), eint(0))), evar("w")]),
                RStmt::Call("none".into(), vec![]),
            ],
        });
        decls.push(RDecl::Proc { name: "none".into(), params: vec![], vars: vec![], body: vec![] });
        // calls in the branches of nested and dangling if/else
        let none = || RStmt::Call("none".into(), vec![]);
        let c = |v: &str| bin(Op::Lst, evar(v), eint(1));
        let four = || RStmt::Call("four".into(), vec![evar("i"), evar("j"), evar("a"), evar("m")]);
        let nested = RStmt::If(
            c("i"),
            Arc::new(RStmt::Block(vec![RStmt::If(c("j"), Arc::new(none()), Some(Arc::new(four())))])),
            Some(Arc::new(RStmt::If(c("j"), Arc::new(four()), Some(Arc::new(none()))))),
        );
        let dangling = RStmt::If(c("i"), Arc::new(RStmt::If(c("j"), Arc::new(none()), Some(Arc::new(four())))), None);
        let after = RStmt::While(c("i"), Arc::new(RStmt::If(c("j"), Arc::new(RStmt::Empty), Some(Arc::new(four())))));
        decls.push(main_with(vec![nested, dangling, after, RStmt::Call(
            "five".into(),
            vec![RExpr::Int(Lit::Chr(',')), bin(Op::Mul, RExpr::Paren(Arc::new(bin(Op::Add, evar("i"), eint(1)))), eint(2)), RExpr::Neg(Arc::new(evar("j"))), evar("m"), evar("i")],
        )]));
        for focus in [2usize, 3, 5] {
            out.push(Item { family: "many-parameters", program: RProgram { decls: decls.clone() }, focus_decl: focus });
        }
    }
    // syntactically valid programs with redeclarations: two procedures of one name, procedures
    // named like a type and like predefined entities, a type named like a procedure
    {
        let pr = |n: &str, body: Vec<RStmt>| RDecl::Proc { name: n.into(), params: vec![], vars: vec![RVarDecl { name: "i".into(), ty: tname("int") }], body };
        let decls = vec![
            RDecl::Type { name: "A".into(), ty: arr(2, tname("int")) },
            pr("q", vec![RStmt::Assign(vname("i"), eint(1))]),
            pr("A", vec![RStmt::Empty]),
            pr("q", vec![RStmt::Assign(vname("i"), eint(2)), RStmt::Assign(vname("i"), eint(3))]),
            pr("printi", vec![]),
            RDecl::Type { name: "q".into(), ty: tname("int") },
            pr("int", vec![RStmt::Call("q".into(), vec![])]),
            pr("main", vec![RStmt::Call("q".into(), vec![])]),
            pr("main", vec![]),
        ];
        for focus in [2usize, 3, 4, 6] {
            out.push(Item { family: "redeclarations", program: RProgram { decls: decls.clone() }, focus_decl: focus });
        }
    }
    // one program just beyond the small bounds (34 types, 34 variables, 70 statements)
    {
        let p = scale_program(34, 34, 70);
        let f = p.decls.len() - 1;
        out.push(Item { family: "scale", program: p, focus_decl: f });
    }
    // G1: whole programs over tiny pools, every order of declarations
    let (p, dp) = g1_pools();
    let mut en5 = Enumerator::new(p);
    for prog in en5.programs_upto(&dp, tier.pick(12, 14), 3) {
        let f = prog.decls.len().saturating_sub(1);
        out.push(Item { family: "G1-whole-programs", program: prog, focus_decl: f });
    }
    out
}

// ------------------------------------------------------------------------------------------
// well-typed family (P_wt): binding scenarios for the navigation features
// ------------------------------------------------------------------------------------------
use crate::gen::refsem;

fn rich_main_body(shadow: bool) -> Vec<RStmt> {
    let m1 = RExpr::Var(idx(vname("m"), eint(1)));
    let r_args = if shadow { vec![evar("m"), evar("m"), m1] } else { vec![m1] };
    vec![
        RStmt::Assign(vname("i"), eint(0)),
        RStmt::While(
            bin(Op::Lst, evar("i"), eint(2)),
            Arc::new(RStmt::Block(vec![
                RStmt::Assign(idx(vname("a"), evar("i")), bin(Op::Add, evar("j"), RExpr::Neg(Arc::new(evar("i"))))),
                RStmt::Assign(idx(idx(vname("m"), evar("i")), RExpr::Paren(Arc::new(evar("j")))), RExpr::Var(idx(vname("a"), bin(Op::Sub, evar("i"), evar("i"))))),
                RStmt::If(
                    bin(Op::Equ, RExpr::Var(idx(vname("a"), eint(0))), evar("j")),
                    Arc::new(RStmt::Call("q".into(), vec![bin(Op::Mul, evar("i"), evar("j")), evar("j"), evar("a")])),
                    Some(Arc::new(RStmt::Call("r".into(), r_args))),
                ),
                RStmt::Assign(vname("i"), bin(Op::Add, evar("i"), eint(1))),
            ])),
        ),
        RStmt::Call("printi".into(), vec![RExpr::Var(idx(vname("a"), eint(1)))]),
        RStmt::Call("readi".into(), vec![evar("j")]),
        // several parenthesised operands in a condition and in an argument
        RStmt::If(
            bin(Op::Lst, RExpr::Paren(Arc::new(bin(Op::Add, evar("i"), eint(1)))), RExpr::Paren(Arc::new(bin(Op::Mul, evar("j"), eint(2))))),
            Arc::new(RStmt::Call("printi".into(), vec![bin(Op::Add, RExpr::Paren(Arc::new(evar("i"))), RExpr::Paren(Arc::new(evar("j"))))])),
            None,
        ),
    ]
}

/// Declarations of the scenario programs; `shadow`: procedure r gets a local variable named
/// like the global procedure q and a parameter named like the type A's sibling.
fn scenario_decls(shadow: bool, alias: bool) -> Vec<RDecl> {
    let mut d = vec![
        RDecl::Type { name: "A".into(), ty: arr(2, tname("int")) },
        RDecl::Type { name: "M".into(), ty: arr(3, tname("A")) },
    ];
    if alias {
        d.push(RDecl::Type { name: "B".into(), ty: tname("A") });
    } else {
        // a type nobody uses: it may stand anywhere, also as the last declaration
        d.push(RDecl::Type { name: "Z".into(), ty: tname("int") });
    }
    // q calls itself (recursion) when nothing shadows it
    let mut q = proc_q();
    if let RDecl::Proc { body, .. } = &mut q {
        body.push(RStmt::If(bin(Op::Lst, evar("x"), eint(0)), Arc::new(RStmt::Call("q".into(), vec![evar("x"), evar("y"), evar("z")])), None));
    }
    d.push(q);
    let mut r_vars = vec![RVarDecl { name: "i".into(), ty: tname("int") }];
    let mut r_body = vec![RStmt::Assign(vname("i"), RExpr::Var(idx(vname("a"), eint(0))))];
    if shadow {
        // a local named like its own procedure, and one named like another procedure
        r_vars.push(RVarDecl { name: "r".into(), ty: tname("int") });
        r_body.push(RStmt::Assign(vname("r"), evar("i")));
        // a local named like a predefined procedure
        r_vars.push(RVarDecl { name: "time".into(), ty: tname("int") });
        r_body.push(RStmt::Assign(vname("time"), bin(Op::Add, evar("time"), eint(1))));
        r_vars.push(RVarDecl { name: "q".into(), ty: tname("int") });
        // a local named like the main procedure
        r_vars.push(RVarDecl { name: "main".into(), ty: tname("int") });
        r_body.push(RStmt::Assign(vname("main"), bin(Op::Add, evar("main"), evar("i"))));
        r_vars.push(RVarDecl { name: "v".into(), ty: arr(2, tname("int")) });
        // a local named like the predefined type (declared last: it hides `int` from then on)
        r_vars.push(RVarDecl { name: "int".into(), ty: tname("A") });
        r_body.push(RStmt::Assign(vname("i"), RExpr::Var(idx(vname("int"), eint(1)))));
        r_body.push(RStmt::Assign(vname("q"), bin(Op::Add, evar("i"), RExpr::Var(idx(vname("v"), evar("q"))))));
    }
    let r_type = if alias { "B" } else { "A" };
    let mut r_params = vec![RParam { is_ref: true, name: "a".into(), ty: tname(r_type) }];
    if shadow {
        // a parameter named like its own type, in front of another parameter of that type
        // (parameter types never see parameters)
        r_params.insert(0, RParam { is_ref: true, name: "n".into(), ty: tname("M") });
        r_params.insert(0, RParam { is_ref: true, name: "M".into(), ty: tname("M") });
        r_body.push(RStmt::Assign(vname("i"), RExpr::Var(idx(idx(vname("M"), eint(1)), eint(0)))));
    }
    d.push(RDecl::Proc { name: "r".into(), params: r_params, vars: r_vars, body: r_body });
    d.push(main_with(rich_main_body(shadow)));
    d
}

fn permutations<T: Clone>(v: &[T]) -> Vec<Vec<T>> {
    if v.len() <= 1 {
        return vec![v.to_vec()];
    }
    let mut out = vec![];
    for i in 0..v.len() {
        let mut rest = v.to_vec();
        let x = rest.remove(i);
        for mut p in permutations(&rest) {
            p.insert(0, x.clone());
            out.push(p);
        }
    }
    out
}

pub fn is_well_typed(p: &RProgram) -> bool {
    refsem::analyze(p).errors.is_empty()
}

/// Well-typed programs: every declaration order of the scenario programs that keeps types in
/// front of their uses, with and without shadowing / alias types, plus every error-free member
/// of the syntactic family.
pub fn typed_family(tier: Tier) -> Vec<Item> {
    let mut out = vec![];
    for (shadow, alias) in [(false, false), (true, false), (false, true), (true, true)] {
        let decls = scenario_decls(shadow, alias);
        let perms = permutations(&decls);
        let step = tier.pick(if alias { 6 } else { 5 }, 1);
        let mut k = 0;
        for p in perms {
            let prog = RProgram { decls: p };
            if !is_well_typed(&prog) {
                continue;
            }
            k += 1;
            if k % step != 0 {
                continue;
            }
            let f = main_index(&prog);
            out.push(Item { family: "scenario-permutations", program: prog, focus_decl: f });
        }
    }
    for it in syntactic_family(tier) {
        if it.family == "G1-whole-programs" {
            continue;
        }
        if is_well_typed(&it.program) {
            out.push(it);
        }
    }
    out
}
