//! Concrete bounded program families shared by the checks (built from gen::*).
use crate::common::Tier;
use crate::gen::ast::*;
use crate::gen::enumerate::*;
use crate::gen::families::*;
use std::sync::Arc;

#[derive(Clone)]
pub struct Item {
    pub family: &'static str,
    pub program: RProgram,
    /// index of the global declaration that holds the focus (comment gaps are enumerated there)
    pub focus_decl: usize,
}

fn main_index(p: &RProgram) -> usize {
    p.decls
        .iter()
        .position(|d| matches!(d, RDecl::Proc { name, .. } if name == "main"))
        .unwrap_or(0)
}

fn push_stmts(out: &mut Vec<Item>, family: &'static str, body: Vec<RStmt>, pl: Placement) {
    let p = program_with_main(body, pl);
    let f = main_index(&p);
    out.push(Item { family, program: p, focus_decl: f });
}

/// Syntactically valid programs (typed or not): the family of C04 / C09-C11 / C17.
pub fn syntactic_family(tier: Tier) -> Vec<Item> {
    let mut out = vec![];
    // expressions, exhaustive by token count, as assignment rhs
    let mut en = Enumerator::new(typed_pools());
    for e in en.exprs_upto(tier.pick(6, 8)) {
        push_stmts(&mut out, "expr@assign-rhs", vec![expr_in_ctx(&e, ExprCtx::AssignRhs)], Placement::MainLast);
    }
    // ... in every other expression context, one size smaller
    let small = en.exprs_upto(tier.pick(4, 6));
    for c in EXPR_CTXS.iter().skip(1) {
        for e in &small {
            push_stmts(&mut out, "expr@contexts", vec![expr_in_ctx(e, *c)], Placement::MainMiddle);
        }
    }
    // all operators and literal spellings on small shapes
    let mut pools = typed_pools().full_ops();
    pools.lits = vec![
        Lit::Dec(0),
        Lit::Dec(2147483647),
        Lit::Hex("1".into()),
        Lit::Hex("0aF".into()),
        Lit::Hex("FFFFFFFF".into()),
        Lit::Chr('a'),
        Lit::Chr('\n'),
        Lit::Chr(' '),
    ];
    pools.vars = vec!["i".into()];
    pools.arrays = vec![];
    let mut en2 = Enumerator::new(pools);
    for e in en2.exprs_upto(tier.pick(3, 5)) {
        push_stmts(&mut out, "expr@operators+literals", vec![expr_in_ctx(&e, ExprCtx::AssignRhs)], Placement::MainLast);
    }
    // statements, exhaustive by token count, at body level
    let mut spools = typed_pools();
    spools.vars = vec!["i".into(), "a".into()];
    spools.arrays = vec!["a".into()];
    spools.add_ops = vec![Op::Add];
    spools.cmp_ops = vec![Op::Lst];
    spools.unary = false;
    spools.procs = vec![("q".into(), vec![0, 1, 2, 3]), ("printi".into(), vec![1])];
    let mut en3 = Enumerator::new(spools);
    let stmts = en3.stmts_upto(tier.pick(8, 10));
    for s in &stmts {
        push_stmts(&mut out, "stmt@body", vec![(**s).clone()], Placement::MainLast);
    }
    let small_stmts = en3.stmts_upto(tier.pick(6, 8));
    for c in STMT_CTXS.iter().skip(1) {
        for s in &small_stmts {
            if let Some(body) = stmt_in_ctx(s, *c) {
                // an open if directly in front of `else` is not a derivation
                push_stmts(&mut out, "stmt@contexts", body, Placement::MainMiddle);
            }
        }
    }
    // dangling-else chains and deep nesting, larger but structured
    for depth in 1..=tier.pick(4, 6) {
        let mut s = RStmt::Empty;
        for k in 0..depth {
            s = if k % 2 == 0 {
                RStmt::If(bin(Op::Lst, evar("i"), eint(1)), Arc::new(s), None)
            } else {
                RStmt::If(bin(Op::Lst, evar("i"), eint(1)), Arc::new(RStmt::Empty), Some(Arc::new(s)))
            };
        }
        push_stmts(&mut out, "stmt@else-chains", vec![s.clone()], Placement::MainLast);
        let w = RStmt::While(eint(1), Arc::new(RStmt::Block(vec![s.clone(), s])));
        push_stmts(&mut out, "stmt@else-chains", vec![w], Placement::MainLast);
    }
    // type expressions in type declarations, parameters and variables
    let mut tpools = typed_pools();
    tpools.type_names = vec!["int".into(), "A".into(), "M".into()];
    tpools.array_sizes = vec![Lit::Dec(2), Lit::Hex("10".into()), Lit::Chr('a')];
    let mut en4 = Enumerator::new(tpools);
    for t in en4.types_upto(tier.pick(11, 16)) {
        let mut decls = prelude_types();
        decls.push(RDecl::Type { name: "T".into(), ty: (*t).clone() });
        decls.push(RDecl::Proc {
            name: "main".into(),
            params: vec![],
            vars: vec![RVarDecl { name: "v".into(), ty: (*t).clone() }],
            body: vec![],
        });
        decls.push(RDecl::Proc {
            name: "p".into(),
            params: vec![
                RParam { is_ref: true, name: "x".into(), ty: (*t).clone() },
                RParam { is_ref: false, name: "y".into(), ty: tname("int") },
            ],
            vars: vec![],
            body: vec![],
        });
        out.push(Item { family: "types", program: RProgram { decls }, focus_decl: 2 });
    }
    // G1: whole programs over tiny pools, every order of declarations
    let (p, dp) = g1_pools();
    let mut en5 = Enumerator::new(p);
    for prog in en5.programs_upto(&dp, tier.pick(12, 14), 3) {
        let f = prog.decls.len().saturating_sub(1);
        out.push(Item { family: "G1-whole-programs", program: prog, focus_decl: f });
    }
    out
}
