//! C01 — incremental re-analysis equals analysis from scratch.  E-HIST.
//! (a) inductive single-step sweep: from fresh(t) apply every edit of the alphabet, the
//!     successor must equal fresh(t'); (b) batches of two edits in one update; (c) BFS over
//!     real histories, states deduplicated on the implementation state.
use crate::common::*;
use crate::gen::ast::{print_program, NodeKind, Role};
use crate::gen::layout::*;
use crate::progs;
use crate::soup::*;
use rayon::prelude::*;
use serde_json::{json, Value};
use spl_frontend::{AnalyzedSource, ErrorContainer, TextChange};
use std::collections::{BTreeMap, HashSet};
use std::hash::{Hash, Hasher};
use std::sync::atomic::{AtomicU64, Ordering};

pub type Edit = (usize, usize, String);

#[derive(Clone, Debug)]
pub struct Case {
    pub family: &'static str,
    pub text: String,
    /// each inner vec is one `update(vec![..])` call; ranges refer to the text as it evolves
    pub batches: Vec<Vec<Edit>>,
}

impl Case {
    /// stable identity of the input (independent of enumeration order)
    pub fn id(&self) -> u64 {
        // FNV-1a over a canonical serialisation
        let mut h: u64 = 0xcbf29ce484222325;
        let mut feed = |b: &[u8]| {
            for x in b {
                h ^= *x as u64;
                h = h.wrapping_mul(0x100000001b3);
            }
        };
        feed(self.text.as_bytes());
        feed(&[0xff]);
        for b in &self.batches {
            feed(&[0xfe]);
            for (s, e, r) in b {
                feed(&(*s as u32).to_le_bytes());
                feed(&(*e as u32).to_le_bytes());
                feed(r.as_bytes());
                feed(&[0xfd]);
            }
        }
        h
    }
    pub fn json(&self) -> Value {
        json!({"family": self.family, "text": self.text, "batches": self.batches})
    }
}

fn table_eq(a: &AnalyzedSource, b: &AnalyzedSource) -> bool {
    a.table == b.table
}

/// which component diverges first: "" = none
pub fn compare(inc: &AnalyzedSource, fresh: &AnalyzedSource) -> Result<(), (String, String)> {
    if inc.text != fresh.text {
        return Err(("text".into(), format!("{:?} vs {:?}", inc.text, fresh.text)));
    }
    // (details are cut: the debug form of a large tree is hundreds of KB per diverging case)
    if inc.tokens != fresh.tokens {
        return Err(("tokens".into(), format!("inc={}\nfresh={}", truncate(&format!("{:?}", inc.tokens), 1200), truncate(&format!("{:?}", fresh.tokens), 1200))));
    }
    if inc.ast != fresh.ast {
        // the first declaration that differs
        let k = inc.ast.global_declarations.iter().zip(&fresh.ast.global_declarations).position(|(a, b)| a != b);
        let show = |a: &AnalyzedSource| match k {
            Some(k) => truncate(&format!("declaration #{}: {:?}", k, a.ast.global_declarations[k]), 1200),
            None => truncate(&format!("{} declarations, program info {:?}", a.ast.global_declarations.len(), a.ast.info), 1200),
        };
        return Err(("tree".into(), format!("inc={}\nfresh={}", show(inc), show(fresh))));
    }
    if !table_eq(inc, fresh) {
        return Err(("table".into(), format!("inc={:?}\nfresh={:?}", inc.table.entries.keys().collect::<Vec<_>>(), fresh.table.entries.keys().collect::<Vec<_>>())));
    }
    let (ei, ef) = (inc.errors(), fresh.errors());
    if ei != ef {
        return Err(("diagnostics".into(), format!("inc={:?}\nfresh={:?}", ei, ef)));
    }
    Ok(())
}

/// Evaluates one case: compares after every batch. Err((component, detail)).
pub fn eval(case: &Case) -> Result<(), (String, String)> {
    let r = guarded(|| {
        let mut cur = AnalyzedSource::new(case.text.clone());
        let mut text = case.text.clone();
        for (bi, b) in case.batches.iter().enumerate() {
            let changes: Vec<TextChange> = b
                .iter()
                .map(|(s, e, r)| TextChange { range: *s..*e, text: r.clone() })
                .collect();
            for (s, e, r) in b {
                text.replace_range(*s..*e, r);
            }
            cur = cur.update(changes);
            let fresh = AnalyzedSource::new(text.clone());
            if let Err((c, d)) = compare(&cur, &fresh) {
                return Err((format!("{}@step{}", c, bi), d));
            }
        }
        Ok(())
    });
    match r {
        Ok(x) => x.map_err(|(c, d)| (c.split('@').next().unwrap().to_string(), d)),
        Err(p) => Err(("panic".into(), p)),
    }
}

// ------------------------------------------------------------------------------------------
// exact known-finding membership (side-car of input hashes, never written by a check run)
// ------------------------------------------------------------------------------------------
pub fn sidecar_path() -> std::path::PathBuf {
    verif_dir().join("known_findings").join("C01.hashes")
}
pub fn load_sidecar() -> HashSet<u64> {
    let mut s = HashSet::new();
    if let Ok(b) = std::fs::read(sidecar_path()) {
        for c in b.chunks_exact(8) {
            s.insert(u64::from_le_bytes(c.try_into().unwrap()));
        }
    }
    s
}

// ------------------------------------------------------------------------------------------
// case families
// ------------------------------------------------------------------------------------------
fn single_edit_cases(family: &'static str, text: &str, repls: &[String], out: &mut Vec<Case>) {
    let b = char_boundaries(text);
    for (bi, &s) in b.iter().enumerate() {
        for &e in &b[bi..] {
            for r in repls {
                if s == e && r.is_empty() {
                    continue;
                }
                out.push(Case { family, text: text.to_string(), batches: vec![vec![(s, e, r.clone())]] });
            }
        }
    }
}

/// every window of 0..=2 consecutive tokens replaced by 0..=1 token of the alphabet
fn token_window_cases(family: &'static str, words: &[String], alphabet: &[&str], out: &mut Vec<Case>) {
    // text = words joined by one blank; token k occupies [starts[k], ends[k])
    let mut text = String::new();
    let mut spans = vec![];
    for (k, w) in words.iter().enumerate() {
        if k > 0 {
            text.push(' ');
        }
        let s = text.len();
        text.push_str(w);
        spans.push((s, text.len()));
    }
    let n = words.len();
    for w in 0..=2usize {
        for k in 0..=n.saturating_sub(w) {
            if k + w > n {
                continue;
            }
            // byte range of tokens k..k+w ; for w == 0 the insertion point in front of token k
            let (s, e) = if w == 0 {
                let p = if k < n { spans[k].0 } else { text.len() };
                (p, p)
            } else {
                (spans[k].0, spans[k + w - 1].1)
            };
            for r in std::iter::once("").chain(alphabet.iter().cloned()) {
                if w == 0 && r.is_empty() {
                    continue;
                }
                // keep tokens separated
                let repl = if w == 0 {
                    if k < n { format!("{} ", r) } else { format!(" {}", r) }
                } else {
                    r.to_string()
                };
                out.push(Case { family, text: text.clone(), batches: vec![vec![(s, e, repl)]] });
            }
        }
    }
}

pub fn families(tier: Tier) -> Vec<(&'static str, Vec<Case>)> {
    let mut fams: Vec<(&'static str, Vec<Case>)> = vec![];
    // F1: character soups
    {
        let alpha = sigma_char(false);
        let texts = Strings::new(&alpha, tier.pick(3, 4));
        let repls = Strings::new(&alpha, tier.pick(1, 1));
        let repl_strs: Vec<String> = (0..repls.count()).map(|i| repls.get(i)).collect();
        let mut v = vec![];
        for i in 0..texts.count() {
            single_edit_cases("F1-char-soup", &texts.get(i), &repl_strs, &mut v);
        }
        fams.push(("F1-char-soup", v));
    }
    // F2: token soups, token-aligned windows
    {
        let seqs = Strings::new(SIGMA_TOK, tier.pick(2, 3));
        let mut v = vec![];
        for i in 0..seqs.count() {
            let words: Vec<String> = seqs.symbols(i).iter().map(|s| s.to_string()).collect();
            token_window_cases("F2-token-soup", &words, SIGMA_TOK, &mut v);
        }
        fams.push(("F2-token-soup", v));
    }
    // F2b: token soups, character-level edits (mid-token ranges)
    {
        let seqs = Strings::new(SIGMA_TOK, tier.pick(2, 2));
        let repl_strs: Vec<String> = ["", "a", "1", ";", "(", "'", "/", "\n", " "].iter().map(|s| s.to_string()).collect();
        let mut v = vec![];
        for i in (0..seqs.count()).step_by(tier.pick(3, 1)) {
            single_edit_cases("F2b-token-soup-char-edits", &seqs.get_joined(i, " "), &repl_strs, &mut v);
        }
        fams.push(("F2b-token-soup-char-edits", v));
    }
    // F2c: sequences with literals that carry lexical errors (their error ranges are absolute
    // and have to move with the tokens), character-level edits
    {
        let alpha: Vec<&str> = vec!["a", ";", "99999999999", "0x", "'", "1"];
        let seqs = Strings::new(&alpha, tier.pick(3, 4));
        let repl_strs: Vec<String> = ["", "b ", ";"].iter().map(|s| s.to_string()).collect();
        let mut v = vec![];
        for i in 0..seqs.count() {
            single_edit_cases("F2c-error-carrying-literals", &seqs.get_joined(i, " "), &repl_strs, &mut v);
        }
        fams.push(("F2c-error-carrying-literals", v));
    }
    // F7: tokens and lines longer than 1 024 bytes (a comment line, a call with 331 operands):
    // single-character edits in front of, at the start of and inside them
    {
        let mut v = vec![];
        let a = format!("proc main() {{\n  a := 1; // {}\n  b := 2;\n}}\n", "c".repeat(1500));
        let b = format!("proc main() {{\n  printi({}1);\n  b := 2;\n}}\n", "1 + ".repeat(330));
        for t in [&a, &b] {
            let n = t.len();
            for p in [0usize, 13, 14, 16, 17, 23, 24, 25, 26, 27, 28, 30, 1040, 1050, n - 12, n - 3] {
                for r in ["x", "//", " ", "("] {
                    v.push(Case { family: "F7-long-tokens", text: t.clone(), batches: vec![vec![(p, p, r.to_string())]] });
                }
                v.push(Case { family: "F7-long-tokens", text: t.clone(), batches: vec![vec![(p, p + 1, String::new())]] });
            }
        }
        fams.push(("F7-long-tokens", v));
    }
    // F8: every range of a small program with non-ASCII text in comments and a character
    // literal, replaced by nothing / one letter (at protocol level half of the events carry the
    // deprecated rangeLength)
    {
        let mut v = vec![];
        let t = "// Z\u{e4}hler \u{1f600}\nproc main() {\n  i := '\u{e9}'; // gr\u{f6}\u{df}er\n}\n".to_string();
        let b = char_boundaries(&t);
        for (i, &s0) in b.iter().enumerate() {
            for &e0 in b[i..].iter().take(8) {
                for r in ["", "x"] {
                    if s0 == e0 && r.is_empty() {
                        continue;
                    }
                    v.push(Case { family: "F8-non-ascii-ranges", text: t.clone(), batches: vec![vec![(s0, e0, r.to_string())]] });
                }
            }
        }
        fams.push(("F8-non-ascii-ranges", v));
    }
    // F4: generated programs, every 0..2-token window replaced by 0..1 token
    {
        let items = progs::syntactic_family(Tier::Quick);
        let mut v = vec![];
        let g1: Vec<_> = items.iter().filter(|i| i.family == "G1-whole-programs").collect();
        for it in g1.iter().step_by(tier.pick(6, 1)) {
            let pr = print_program(&it.program);
            let words: Vec<String> = pr.toks.iter().map(|t| t.text.clone()).collect();
            token_window_cases("F4-program-token-windows", &words, SIGMA_TOK, &mut v);
        }
        // a few larger programs of the typed families
        // ... and the program beyond the small bounds (every token window of its 40 declarations)
        for it in items.iter().filter(|i| i.family == "scale") {
            let pr = print_program(&it.program);
            let words: Vec<String> = pr.toks.iter().map(|t| t.text.clone()).collect();
            let mut w = vec![];
            token_window_cases("F4-program-token-windows", &words, &SIGMA_TOK[..tier.pick(12, 33)], &mut w);
            // quick tier: a fixed quarter of them (chosen by the case's own hash, so that the
            // quick cases are a subset of the thorough ones and the exact list covers both)
            if tier == Tier::Quick {
                w.retain(|c| c.id() % 4 == 0);
            }
            v.extend(w);
        }
        let big: Vec<_> = items.iter().filter(|i| i.family == "stmt@contexts" || i.family == "expr@contexts").collect();
        for it in big.iter().step_by(tier.pick(300, 30)) {
            let pr = print_program(&it.program);
            let words: Vec<String> = pr.toks.iter().map(|t| t.text.clone()).collect();
            token_window_cases("F4-program-token-windows", &words, SIGMA_TOK, &mut v);
        }
        fams.push(("F4-program-token-windows", v));
    }
    // F3: valid -> valid edits on programs in Pretty layout: character insert/delete everywhere
    {
        let items = progs::syntactic_family(Tier::Quick);
        let mut v = vec![];
        let repl_strs: Vec<String> = ["", "a", "1", ";", "(", "'", "/", "\n", "\u{e9}"].iter().map(|s| s.to_string()).collect();
        let g1: Vec<_> = items.iter().filter(|i| i.family == "G1-whole-programs").collect();
        for it in g1.iter().step_by(tier.pick(20, 2)) {
            let pr = print_program(&it.program);
            let text = render_plain(&pr.toks, Layout::Pretty).text;
            let b = char_boundaries(&text);
            for (bi, &s) in b.iter().enumerate() {
                // deletions of one char, insertions of one char
                for r in &repl_strs {
                    if !r.is_empty() {
                        v.push(Case { family: "F3-program-char-edits", text: text.clone(), batches: vec![vec![(s, s, r.clone())]] });
                    }
                }
                if bi + 1 < b.len() {
                    v.push(Case { family: "F3-program-char-edits", text: text.clone(), batches: vec![vec![(s, b[bi + 1], String::new())]] });
                }
            }
        }
        fams.push(("F3-program-char-edits", v));
    }
    // F5: valid -> valid edits on multi-declaration programs: every single token replaced by
    // another token of its class (identifier, literal, operator), every statement-level `;`
    // doubled (an empty statement inserted) and every empty statement removed
    {
        let items = progs::typed_family(Tier::Quick);
        let mut v = vec![];
        let idents = ["i", "j", "a", "m", "x", "q", "A", "int", "k9"];
        let lits = ["0", "7", "0x1F", "'c'"];
        let ops: [&[&str]; 3] = [&["+", "-"], &["*", "/"], &["<", "<=", "=", "#", ">", ">="]];
        for (pi, it) in items.iter().enumerate() {
            if pi % tier.pick(9, 2) != 0 && it.family != "scenario-permutations" {
                continue;
            }
            let pr = print_program(&it.program);
            let r = render_plain(&pr.toks, Layout::Spaces);
            for (k, t) in pr.toks.iter().enumerate() {
                let (s, e) = r.tok_ranges[k];
                let mut repls: Vec<String> = vec![];
                match &t.class {
                    crate::gen::ast::TokClass::Ident(_) => repls.extend(idents.iter().filter(|x| **x != t.text).take(tier.pick(3, 9)).map(|x| x.to_string())),
                    crate::gen::ast::TokClass::Number => repls.extend(lits.iter().filter(|x| **x != t.text).take(tier.pick(2, 4)).map(|x| x.to_string())),
                    crate::gen::ast::TokClass::Symbol => {
                        for g in ops {
                            if g.contains(&t.text.as_str()) {
                                repls.extend(g.iter().filter(|x| **x != t.text).map(|x| x.to_string()));
                            }
                        }
                        if t.text == ";" {
                            repls.push("; ;".into());
                        }
                    }
                    _ => {}
                }
                for rp in repls {
                    v.push(Case { family: "F5-valid-to-valid-token-edits", text: r.text.clone(), batches: vec![vec![(s, e, rp)]] });
                }
            }
        }
        fams.push(("F5-valid-to-valid-token-edits", v));
    }
    // F6: structural valid -> valid(ish) edits on multi-declaration programs, with and without
    // doc comments: a statement inserted at / removed from every statement start, `ref` removed
    // from / added to every parameter, a comment line inserted in front of / removed from every
    // declaration and statement start
    {
        let items = progs::typed_family(Tier::Quick);
        let mut v = vec![];
        for (pi, it) in items.iter().enumerate() {
            let scen = it.family == "scenario-permutations";
            if !(progs::always_included(it.family) || (scen && pi % tier.pick(40, 6) == 0) || (!scen && pi % tier.pick(120, 15) == 0)) {
                continue;
            }
            let pr = print_program(&it.program);
            let starts: Vec<usize> = pr.decl_spans.iter().map(|s| s.0).collect();
            for (layout, gaps) in [(Layout::Spaces, vec![]), (Layout::Pretty, starts.clone())] {
                let r = render(&pr.toks, layout, &gaps, &|g| format!(" doc{}", g));
                let text = &r.text;
                let at = |k: usize| r.tok_ranges.get(k).map(|x| x.0).unwrap_or(text.len());
                // statements in and out
                for &k in &pr.stmt_starts {
                    let p = at(k);
                    for ins in ["; ", "i := 1 ; ", "{ } ", "// note\n"] {
                        v.push(Case { family: "F6-structural-edits", text: text.clone(), batches: vec![vec![(p, p, ins.to_string())]] });
                    }
                }
                for sp in &pr.spans {
                    if matches!(sp.kind, NodeKind::StmtAssign | NodeKind::StmtCall | NodeKind::StmtEmpty) && sp.end > sp.first {
                        v.push(Case { family: "F6-structural-edits", text: text.clone(), batches: vec![vec![(at(sp.first), r.tok_ranges[sp.end - 1].1, String::new())]] });
                    }
                }
                // ref in and out
                for (k, t) in pr.toks.iter().enumerate() {
                    if t.text == "ref" {
                        v.push(Case { family: "F6-structural-edits", text: text.clone(), batches: vec![vec![(at(k), at(k + 1), String::new())]] });
                    }
                    if matches!(t.class, crate::gen::ast::TokClass::Ident(Role::ParamDecl)) && k > 0 && pr.toks[k - 1].text != "ref" {
                        v.push(Case { family: "F6-structural-edits", text: text.clone(), batches: vec![vec![(at(k), at(k), "ref ".to_string())]] });
                    }
                }
                // comment lines in and out (declaration starts)
                for &k in &starts {
                    let p = at(k);
                    v.push(Case { family: "F6-structural-edits", text: text.clone(), batches: vec![vec![(p, p, "// header\n".to_string())]] });
                }
                for c in &r.comments {
                    // remove the comment with its line end
                    let mut e = c.2;
                    while e < text.len() && !text[..e].ends_with('\n') {
                        e += 1;
                    }
                    if text.is_char_boundary(e) {
                        v.push(Case { family: "F6-structural-edits", text: text.clone(), batches: vec![vec![(c.1, e, String::new())]] });
                    }
                }
            }
        }
        fams.push(("F6-structural-edits", v));
    }
    // batches: ordered pairs of edits delivered in one update, on small token soups
    {
        let seqs = Strings::new(SIGMA_TOK, tier.pick(1, 2));
        let repl: Vec<&str> = SIGMA_TOK.iter().cloned().step_by(tier.pick(4, 2)).collect();
        let mut v = vec![];
        for i in 0..seqs.count() {
            let t = seqs.get_joined(i, " ");
            // first edit: insert a token at any boundary; second: insert/delete at any boundary of the result
            let b1 = char_boundaries(&t);
            for &p1 in &b1 {
                for r1 in &repl {
                    let r1s = format!("{} ", r1);
                    let mut t1 = t.clone();
                    t1.replace_range(p1..p1, &r1s);
                    let b2 = char_boundaries(&t1);
                    for (k, &p2) in b2.iter().enumerate().step_by(tier.pick(2, 1)) {
                        for r2 in repl.iter().step_by(2) {
                            v.push(Case {
                                family: "batches-of-two",
                                text: t.clone(),
                                batches: vec![vec![(p1, p1, r1s.clone()), (p2, p2, format!("{} ", r2))]],
                            });
                        }
                        if k + 1 < b2.len() {
                            v.push(Case {
                                family: "batches-of-two",
                                text: t.clone(),
                                batches: vec![vec![(p1, p1, r1s.clone()), (p2, b2[k + 1], String::new())]],
                            });
                        }
                    }
                }
            }
        }
        fams.push(("batches-of-two", v));
    }
    // an update without any change (a didChange notification whose contentChanges array is
    // empty), alone, in front of and behind a real edit
    {
        let mut texts: Vec<String> = vec![];
        let seqs = Strings::new(SIGMA_TOK, 2);
        for i in 0..seqs.count() {
            texts.push(seqs.get_joined(i, " "));
        }
        for it in progs::syntactic_family(Tier::Quick).iter().step_by(tier.pick(40, 4)) {
            texts.push(render_plain(&print_program(&it.program).toks, Layout::Pretty).text);
        }
        let mut v = vec![];
        for t in texts {
            let edit: Edit = (0, 0, " ".to_string());
            v.push(Case { family: "empty-update", text: t.clone(), batches: vec![vec![]] });
            v.push(Case { family: "empty-update", text: t.clone(), batches: vec![vec![], vec![edit.clone()]] });
            v.push(Case { family: "empty-update", text: t.clone(), batches: vec![vec![edit], vec![], vec![]] });
        }
        fams.push(("empty-update", v));
    }
    // edits that keep every byte offset but change the line structure (a blank replaced by a
    // line feed) or the UTF-16 width (two ASCII letters of a comment replaced by one two-byte
    // letter) in front of the diagnostics of programs with errors
    {
        let mut v = vec![];
        for it in progs::syntactic_family(Tier::Quick).iter().step_by(tier.pick(25, 3)) {
            let pr = print_program(&it.program);
            let mut text = format!("// ab\n{}", render_plain(&pr.toks, Layout::Spaces).text);
            // make sure there is a diagnostic behind everything: an undefined name at the end
            text.push_str(" proc zz() { undefined9 := 1; }");
            v.push(Case { family: "same-length-edits", text: text.clone(), batches: vec![vec![(3, 5, "\u{e9}".to_string())]] });
            for (p, ch) in text.char_indices().skip(6) {
                if ch == ' ' {
                    v.push(Case { family: "same-length-edits", text: text.clone(), batches: vec![vec![(p, p + 1, "\n".to_string())]] });
                }
            }
        }
        fams.push(("same-length-edits", v));
    }
    fams
}

// ------------------------------------------------------------------------------------------
// BFS over real histories: the implementation state is carried forward, never recomputed
// ------------------------------------------------------------------------------------------
fn fingerprint(a: &AnalyzedSource) -> u64 {
    let mut h = std::collections::hash_map::DefaultHasher::new();
    a.text.hash(&mut h);
    format!("{:?}{:?}", a.tokens, a.ast).hash(&mut h);
    let mut keys: Vec<_> = a.table.entries.iter().map(|(k, v)| format!("{}={:?}", k, v)).collect();
    keys.sort();
    keys.hash(&mut h);
    h.finish()
}

pub fn history_bfs(tier: Tier, known: &HashSet<u64>) -> (u64, u64, u64, Vec<Failure>) {
    let depth = tier.pick(3, 4);
    let max_tokens = tier.pick(4, 5);
    let alphabet: Vec<&str> = vec!["proc", "a", "(", ")", "{", "}", ";", ":=", "1", "// c\n", "if", "type", "="];
    let mut seen: HashSet<u64> = HashSet::new();
    let mut frontier: Vec<(AnalyzedSource, Vec<Vec<Edit>>, String)> = vec![];
    let start = AnalyzedSource::new(String::new());
    seen.insert(fingerprint(&start));
    frontier.push((start, vec![], String::new()));
    let mut transitions = 0u64;
    let mut known_hits = 0u64;
    let mut fails = vec![];
    for _d in 0..depth {
        let results: Vec<(Option<(AnalyzedSource, Vec<Vec<Edit>>, String)>, Option<Failure>, bool)> = frontier
            .par_iter()
            .flat_map_iter(|(state, hist, init)| {
                let mut out = vec![];
                let text = state.text.clone();
                // token-aligned positions: every whitespace-separated word boundary
                let mut spans = vec![];
                let mut i = 0;
                for w in text.split(' ') {
                    spans.push((i, i + w.len()));
                    i += w.len() + 1;
                }
                if text.is_empty() {
                    spans.clear();
                }
                let n = spans.len();
                let mut edits: Vec<Edit> = vec![];
                for k in 0..=n {
                    let p = if k < n { spans[k].0 } else { text.len() };
                    if n < max_tokens {
                        for a in &alphabet {
                            let r = if k < n { format!("{} ", a) } else if n == 0 { a.to_string() } else { format!(" {}", a) };
                            edits.push((p, p, r));
                        }
                    }
                    if k < n {
                        // delete token k with one adjacent blank
                        let (s, e) = spans[k];
                        let (s, e) = if k + 1 < n { (s, e + 1) } else if k > 0 { (s - 1, e) } else { (s, e) };
                        edits.push((s, e, String::new()));
                    }
                }
                for ed in edits {
                    let mut h = hist.clone();
                    h.push(vec![ed.clone()]);
                    let case = Case { family: "history-bfs", text: init.clone(), batches: h.clone() };
                    let st = state.clone();
                    let r = guarded(move || {
                        let next = st.update(vec![TextChange { range: ed.0..ed.1, text: ed.2.clone() }]);
                        let fresh = AnalyzedSource::new(next.text.clone());
                        let c = compare(&next, &fresh);
                        (next, c)
                    });
                    match r {
                        Ok((next, Ok(()))) => out.push((Some((next, h, init.clone())), None, false)),
                        Ok((_, Err((c, d)))) => {
                            let kn = known.contains(&case.id());
                            out.push((None, Some(Failure { key: if kn { "known-divergence".into() } else { format!("divergence:history-bfs:{}", c) }, case: case.json(), detail: d }), kn));
                        }
                        Err(p) => {
                            let kn = known.contains(&case.id());
                            out.push((None, Some(Failure { key: if kn { "known-divergence".into() } else { "divergence:history-bfs:panic".into() }, case: case.json(), detail: p }), kn));
                        }
                    }
                }
                out
            })
            .collect();
        let mut next_frontier = vec![];
        for (st, f, kn) in results {
            transitions += 1;
            if kn {
                known_hits += 1;
            }
            if let Some(f) = f {
                if fails.len() < MAX_KEPT_FAILURES {
                    fails.push(f);
                }
            }
            if let Some((s, h, i)) = st {
                if seen.insert(fingerprint(&s)) {
                    next_frontier.push((s, h, i));
                }
            }
        }
        frontier = next_frontier;
    }
    (seen.len() as u64, transitions, known_hits, fails)
}

pub struct SweepResult {
    pub report: Report,
    pub failing_ids: Vec<u64>,
}

pub fn sweep(tier: Tier) -> SweepResult {
    let mut rep = Report::new("C01", tier);
    start_watchdog(120);
    let known = load_sidecar();
    let fams = families(tier);
    let evals = AtomicU64::new(0);
    let mut stats = vec![];
    let mut fails: Vec<Failure> = vec![];
    let mut failing_ids: Vec<u64> = vec![];
    let mut nontrivial = 0u64;
    let mut states: HashSet<u64> = HashSet::new();
    for (name, cases) in &fams {
        let t_fam = std::time::Instant::now();
        let res: Vec<(u64, Option<(String, String)>)> = cases
            .par_iter()
            .map(|c| {
                let _g = watch("C01", || c.json().to_string());
                evals.fetch_add(1, Ordering::Relaxed);
                (c.id(), eval(c).err())
            })
            .collect();
        let mut fam_fail = 0u64;
        let mut fam_known = 0u64;
        let mut by_comp: BTreeMap<String, u64> = BTreeMap::new();
        for (c, (id, r)) in cases.iter().zip(&res) {
            if let Some((comp, detail)) = r {
                fam_fail += 1;
                failing_ids.push(*id);
                *by_comp.entry(comp.clone()).or_default() += 1;
                let kn = known.contains(id);
                if kn {
                    fam_known += 1;
                }
                if fails.len() < MAX_KEPT_FAILURES || !kn {
                    fails.push(Failure {
                        key: if kn { "known-divergence".into() } else { format!("divergence:{}:{}", name, comp) },
                        case: c.json(),
                        detail: truncate(detail, 1500),
                    });
                }
            }
        }
        let distinct_texts: HashSet<&str> = cases.iter().map(|c| c.text.as_str()).collect();
        for t in &distinct_texts {
            let mut h = std::collections::hash_map::DefaultHasher::new();
            t.hash(&mut h);
            states.insert(h.finish());
        }
        nontrivial += cases.len() as u64;
        if std::env::var("C01_DUMP").ok().as_deref() == Some(*name) {
            for (c, (_, r)) in cases.iter().zip(&res) {
                if r.is_some() {
                    let (s, e, rp) = &c.batches[0][0];
                    println!("DUMP {:?} -> {:?} @{} ctx={:?}", &c.text[*s..*e], rp, s, &c.text[s.saturating_sub(25)..(*e + 25).min(c.text.len())]);
                }
            }
        }
        stats.push(json!({"family": name, "cases": cases.len(), "pre_states": distinct_texts.len(), "diverging": fam_fail, "diverging_known": fam_known, "diverging_by_component": by_comp, "seconds": (t_fam.elapsed().as_secs_f64() * 10.0).round() / 10.0}));
    }
    // the same property observed at the protocol level: diagnostics published after didChange
    // equal those published for a fresh didOpen of the final text (real run(), real broker)
    {
        use crate::lsptext;
        use crate::session::{Session, URI};
        let cases: Vec<&Case> = fams
            .iter()
            .filter(|(n, _)| *n == "F2-token-soup" || *n == "F4-program-token-windows" || *n == "F8-non-ascii-ranges" || *n == "batches-of-two" || *n == "empty-update" || *n == "same-length-edits")
            .flat_map(|(_, cs)| cs.iter().step_by(tier.pick(23, 5)))
            // (quick tier: the large program only at the analysis level above)
            .filter(|c| tier == Tier::Thorough || c.text.len() <= 2000)
            .collect();
        let res: Vec<(u64, Option<String>)> = cases
            .par_iter()
            .map(|c| {
                let mut s = Session::new(true);
                s.open(URI, &c.text);
                let mut cur = c.text.clone();
                for b in &c.batches {
                    let mut evs = vec![];
                    for (a, e, r) in b {
                        let (l1, c1) = lsptext::position(&cur, *a);
                        let (l2, c2) = lsptext::position(&cur, *e);
                        let mut ev = json!({"range": {"start": {"line": l1, "character": c1}, "end": {"line": l2, "character": c2}}, "text": r});
                        if c.id() % 2 == 1 {
                            ev["rangeLength"] = json!(lsptext::utf16_len(&cur[*a..*e]));
                        }
                        evs.push(ev);
                        cur.replace_range(*a..*e, r);
                    }
                    // every second batch of several events ends with a range-less event instead
                    // (full replacement by the text the last ranged event would have produced)
                    if evs.len() >= 2 && c.id() % 2 == 0 {
                        evs.pop();
                        evs.push(json!({"text": cur}));
                    }
                    s.change(URI, Value::Array(evs));
                }
                let o = s.run();
                let mut f = Session::new(true);
                f.open(URI, &cur);
                let of = f.run();
                let last = |o: &crate::session::Outcome| o.notifications("textDocument/publishDiagnostics").last().map(|n| n["params"]["diagnostics"].clone());
                let bad = if o.error.is_some() || o.frame_error.is_some() {
                    Some(format!("session failed: {:?} {:?}", o.error, o.frame_error))
                } else if last(&o) != last(&of) {
                    Some(format!("diagnostics after didChange {:?}
after a fresh didOpen {:?}", last(&o), last(&of)))
                } else {
                    None
                };
                (c.id(), bad)
            })
            .collect();
        let mut n_fail = 0u64;
        let mut n_known = 0u64;
        for (c, (id, bad)) in cases.iter().zip(res) {
            evals.fetch_add(1, Ordering::Relaxed);
            if let Some(d) = bad {
                n_fail += 1;
                let kn = known.contains(&id);
                if kn {
                    n_known += 1;
                }
                fails.push(Failure { key: if kn { "known-divergence".into() } else { "divergence:published-diagnostics".into() }, case: c.json(), detail: truncate(&d, 1500) });
            }
        }
        stats.push(json!({"family": "published-diagnostics-after-didChange", "cases": cases.len(), "diverging": n_fail, "diverging_known": n_known}));
    }
    // every feature answer after the edits equals the answer of a freshly opened document
    // (all 13 request kinds at all positions; the first round of requests on the old text also
    // warms anything a handler might keep between requests)
    {
        use crate::checks::c02::all_requests;
        use crate::lsptext;
        use crate::session::{Session, URI};
        let cases: Vec<&Case> = fams
            .iter()
            .filter(|(n, _)| *n == "F2-token-soup" || *n == "F4-program-token-windows" || *n == "F5-valid-to-valid-token-edits" || *n == "F6-structural-edits" || *n == "F7-long-tokens" || *n == "F8-non-ascii-ranges" || *n == "batches-of-two" || *n == "empty-update" || *n == "same-length-edits")
            .flat_map(|(_, cs)| cs.iter().step_by(tier.pick(211, 29)))
            .filter(|c| !known.contains(&c.id()))
            .filter(|c| tier == Tier::Thorough || c.text.len() <= 2000 || c.id() % 8 == 0)
            .collect();
        let canon = |mut v: Value| -> Value {
            if let Some(a) = v.get_mut("result").and_then(|r| r.as_array_mut()) {
                if a.iter().all(|x| x.get("label").is_some()) {
                    a.sort_by_key(|x| x.to_string());
                }
            }
            v
        };
        let res: Vec<Option<String>> = cases
            .par_iter()
            .map(|c| {
                let mut cur = c.text.clone();
                let mut s = Session::new(false);
                s.open(URI, &c.text);
                for r in all_requests(&c.text, URI, false).into_iter().step_by(if c.text.len() > 2000 { 701 } else { 7 }) {
                    s.request(&r.method, r.params);
                }
                for b in &c.batches {
                    let mut evs = vec![];
                    for (a, e, r) in b {
                        let (l1, c1) = lsptext::position(&cur, *a);
                        let (l2, c2) = lsptext::position(&cur, *e);
                        let mut ev = json!({"range": {"start": {"line": l1, "character": c1}, "end": {"line": l2, "character": c2}}, "text": r});
                        if c.id() % 2 == 1 {
                            ev["rangeLength"] = json!(lsptext::utf16_len(&cur[*a..*e]));
                        }
                        evs.push(ev);
                        cur.replace_range(*a..*e, r);
                    }
                    s.change(URI, Value::Array(evs));
                }
                // on the final text: the document requests and the position requests at the first
                // column of every token and directly behind the text
                // (large texts: every 25th token, or one case would be some 10^4 requests)
                let tok_step = if cur.len() > 2000 { 25 } else { 1 };
                let starts: std::collections::BTreeSet<(u64, u64)> = crate::reflex::lex(&cur)
                    .iter()
                    .step_by(tok_step)
                    .map(|t| lsptext::position(&cur, t.start))
                    .chain(std::iter::once(lsptext::position(&cur, cur.len())))
                    .map(|(l, c)| (l as u64, c as u64))
                    .collect();
                let reqs: Vec<_> = all_requests(&cur, URI, false)
                    .into_iter()
                    .filter(|r| match r.params.get("position") {
                        Some(p) => starts.contains(&(p["line"].as_u64().unwrap_or(0), p["character"].as_u64().unwrap_or(0))),
                        None => true,
                    })
                    .collect();
                let ids: Vec<i64> = reqs.iter().map(|r| s.request(&r.method, r.params.clone())).collect();
                let o = s.run();
                let mut f = Session::new(false);
                f.open(URI, &cur);
                let fids: Vec<i64> = reqs.iter().map(|r| f.request(&r.method, r.params.clone())).collect();
                let of = f.run();
                if o.error.is_some() || o.frame_error.is_some() || of.error.is_some() {
                    return Some(format!("session failed: {:?} {:?} / fresh {:?}", o.error, o.frame_error, of.error));
                }
                let (ra, rb) = (o.responses(), of.responses());
                for ((ia, ib), r) in ids.iter().zip(&fids).zip(&reqs) {
                    let a = ra.get(ia).map(|v| canon(json!({"result": v.get("result"), "error": v.get("error")})));
                    let b = rb.get(ib).map(|v| canon(json!({"result": v.get("result"), "error": v.get("error")})));
                    if a != b {
                        return Some(format!("{} {}: after the edits {:?}, freshly opened {:?}", r.method, r.params["position"], a, b));
                    }
                }
                None
            })
            .collect();
        let mut n_fail = 0u64;
        for (c, bad) in cases.iter().zip(res) {
            evals.fetch_add(1, Ordering::Relaxed);
            if let Some(d) = bad {
                n_fail += 1;
                // (never added to the baseline: every case is also evaluated at the analysis
                // level above, only a divergence found there may become a listed finding)
                fails.push(Failure { key: "divergence:feature-answers".into(), case: c.json(), detail: truncate(&d, 1500) });
            }
        }
        stats.push(json!({"family": "feature-answers-after-edits-vs-fresh", "cases": cases.len(), "diverging": n_fail, "note": "inputs of the exact known-divergence list are excluded here"}));
    }
    let (hs, ht, hk, hf) = history_bfs(tier, &known);
    for f in &hf {
        // ids of history failures for the baseline
        let c: Vec<Vec<Edit>> = serde_json::from_value(f.case["batches"].clone()).unwrap_or_default();
        failing_ids.push(Case { family: "history-bfs", text: f.case["text"].as_str().unwrap_or("").to_string(), batches: c }.id());
    }
    stats.push(json!({"family": "history-bfs", "states": hs, "transitions": ht, "diverging": hf.len(), "diverging_known": hk}));
    fails.extend(hf);
    rep.states = states.len() as u64 + hs;
    rep.transitions = evals.load(Ordering::Relaxed) + ht;
    rep.evaluations = rep.transitions;
    rep.traces_validated = rep.transitions;
    rep.distinct_nontrivial = nontrivial + ht;
    rep.rule = "pre-states fresh(t) for every text of the bounded families; transitions = every edit of the family's edit alphabet (all byte ranges x replacements for soups; every 0-2-token window x 0-1 token for token soups and generated programs; every 1-char insert/delete on pretty-printed programs; ordered pairs of edits in one update) plus BFS over real histories with the implementation state carried forward; oracle: tokens, tree, table and errors() equal those of a fresh analysis after every step; cases are distinct by construction; known findings are matched by the exact input (64-bit hash of text+edits) against known_findings/C01.hashes".into();
    rep.bounds = json!({"families": stats, "known_hashes_loaded": known.len()});
    if let Some((_, cs)) = fams.get(1) {
        if let Some(c) = cs.get(cs.len() / 2) {
            rep.sample(c.json());
        }
    }
    if let Some((_, cs)) = fams.get(3) {
        if let Some(c) = cs.get(cs.len() / 3) {
            rep.sample(c.json());
        }
    }
    rep.assumptions = vec![
        "differential oracle: AnalyzedSource::new is the specification of AnalyzedSource::update".into(),
        "induction: update reads only text/tokens/ast of its predecessor, all of which are compared; histories leaving the bounded text set are not covered".into(),
    ];
    rep.failures = fails;
    SweepResult { report: rep, failing_ids }
}

pub fn run(tier: Tier) -> Report {
    sweep(tier).report
}

/// Development-time only (`splmc baseline C01`): writes the side-car of currently failing inputs.
pub fn write_baseline() {
    let mut ids: Vec<u64> = vec![];
    for t in [Tier::Quick, Tier::Thorough] {
        let r = sweep(t);
        ids.extend(r.failing_ids);
    }
    ids.sort();
    ids.dedup();
    let mut b = Vec::with_capacity(ids.len() * 8);
    for i in &ids {
        b.extend_from_slice(&i.to_le_bytes());
    }
    std::fs::create_dir_all(sidecar_path().parent().unwrap()).unwrap();
    std::fs::write(sidecar_path(), b).unwrap();
    println!("baseline: {} failing inputs written to {}", ids.len(), sidecar_path().display());
}

pub fn replay(case: &Value) -> Vec<Failure> {
    let batches: Vec<Vec<Edit>> = serde_json::from_value(case["batches"].clone()).unwrap_or_default();
    let c = Case { family: "replay", text: case["text"].as_str().unwrap_or("").to_string(), batches };
    match eval(&c) {
        Ok(()) => vec![],
        Err((comp, d)) => vec![Failure { key: format!("divergence:{}", comp), case: case.clone(), detail: truncate(&d, 3000) }],
    }
}
