//! C13 — find-references and rename cover exactly the occurrences of one binding.
use crate::checks::nav::*;
use crate::common::*;
use crate::gen::ast::*;
use crate::gen::refsem::{Occ, Target};
use crate::lsptext;
use crate::progs;
use crate::session::*;
use rayon::prelude::*;
use serde_json::{json, Value};
use std::collections::{BTreeMap, BTreeSet};
use std::sync::atomic::{AtomicU64, Ordering};

/// New names of the rename requests: unused in every generated program; most of them start
/// with a keyword (a name like `iffy` or `offset` is an ordinary identifier).
pub const FRESH_NAMES: &[&str] = &["zz9", "iffy", "offset", "variable", "typeA", "refx", "procx", "elsewhere", "whiley", "arrayx", "_0", "Z0", "intx"];

pub fn fresh(tok: usize) -> &'static str {
    FRESH_NAMES[tok % FRESH_NAMES.len()]
}

#[derive(Clone, Debug, PartialEq, Eq, PartialOrd, Ord)]
enum Binding {
    Decl(usize),
    Builtin(String),
}

fn binding_of(o: &Occ) -> Option<Binding> {
    match &o.target {
        Target::Decl(t) => Some(Binding::Decl(*t)),
        Target::Builtin => Some(Binding::Builtin(o.name.clone())),
        Target::Unbound => None,
    }
}

fn range_key(v: &Value) -> (u64, u64, u64, u64) {
    (
        v["start"]["line"].as_u64().unwrap_or(u64::MAX),
        v["start"]["character"].as_u64().unwrap_or(u64::MAX),
        v["end"]["line"].as_u64().unwrap_or(u64::MAX),
        v["end"]["character"].as_u64().unwrap_or(u64::MAX),
    )
}

/// applies the edits of a WorkspaceEdit for URI to `text`
fn apply_edits(text: &str, edits: &[Value]) -> Option<String> {
    let mut es: Vec<(usize, usize, String)> = vec![];
    for e in edits {
        let r = &e["range"];
        let s = lsptext::offset(text, r["start"]["line"].as_u64()? as u32, r["start"]["character"].as_u64()? as u32)?;
        let en = lsptext::offset(text, r["end"]["line"].as_u64()? as u32, r["end"]["character"].as_u64()? as u32)?;
        es.push((s, en, e["newText"].as_str()?.to_string()));
    }
    es.sort();
    // overlapping edits are an error
    for w in es.windows(2) {
        if w[0].1 > w[1].0 {
            return None;
        }
    }
    let mut t = text.to_string();
    for (s, e, n) in es.into_iter().rev() {
        t.replace_range(s..e, &n);
    }
    Some(t)
}

fn expr_shape(doc: &Doc, tok: usize) -> &'static str {
    // syntactic surroundings of a variable use (finding key vocabulary)
    let prev = if tok > 0 { doc.pr.toks[tok - 1].text.as_str() } else { "" };
    // inside an index expression?
    let mut depth = 0i32;
    for k in (0..tok).rev() {
        match doc.pr.toks[k].text.as_str() {
            "]" => depth += 1,
            "[" => {
                if depth == 0 {
                    return "inside-index";
                }
                depth -= 1;
            }
            ";" | "{" | "}" => break,
            _ => {}
        }
    }
    let mut pd = 0i32;
    for k in (0..tok).rev() {
        match doc.pr.toks[k].text.as_str() {
            ")" => pd += 1,
            "(" => {
                if pd == 0 {
                    // call/if/while parenthesis or a bracketed expression?
                    let before = if k > 0 { doc.pr.toks[k - 1].text.as_str() } else { "" };
                    let is_header = matches!(before, "if" | "while") || matches!(doc.pr.toks.get(k.wrapping_sub(1)).map(|t| &t.class), Some(TokClass::Ident(Role::ProcUse)));
                    if !is_header {
                        return "inside-parentheses";
                    }
                    break;
                }
                pd -= 1;
            }
            ";" | "{" | "}" => break,
            _ => {}
        }
    }
    if prev == "-" && tok >= 2 && !matches!(doc.pr.toks[tok - 2].class, TokClass::Ident(_) | TokClass::Number) && doc.pr.toks[tok - 2].text != ")" && doc.pr.toks[tok - 2].text != "]" {
        return "after-unary-minus";
    }
    "plain"
}

pub fn eval_doc(doc: &Doc) -> (Vec<Failure>, u64) {
    let mut fails = vec![];
    // bindings
    let mut sets: BTreeMap<Binding, Vec<usize>> = BTreeMap::new();
    for o in &doc.sem.occs {
        if let Some(b) = binding_of(o) {
            sets.entry(b).or_default().push(o.tok);
        }
    }
    let mut s = Session::new(false);
    s.open(URI, doc.text());
    let mut reqs = vec![];
    for o in &doc.sem.occs {
        let ps = doc.tok_positions(o.tok);
        let (l, c) = ps[0];
        let (ll, lc) = *ps.last().unwrap();
        reqs.push((
            o,
            s.pos_request("textDocument/references", URI, l, c),
            {
                let mut params = json!({"textDocument": {"uri": URI}, "position": {"line": ll, "character": lc}});
                params["newName"] = json!(fresh(o.tok));
                s.request("textDocument/rename", params)
            },
            s.pos_request("textDocument/prepareRename", URI, l, c),
            s.pos_request("textDocument/prepareRename", URI, ll, lc),
        ));
    }
    let n = reqs.len() as u64 * 4;
    let out = s.run();
    if let Some(e) = out.error.clone().or(out.frame_error.clone()) {
        fails.push(Failure { key: "refs:error".into(), case: doc.case(Value::Null), detail: e });
        return (fails, n);
    }
    let resp = out.responses();
    let result = |id: i64| resp.get(&id).and_then(|r| r.get("result").cloned());
    let mut second_phase: BTreeMap<Binding, (usize, Vec<Value>)> = BTreeMap::new();
    for (o, id_ref, id_ren, id_p1, id_p2) in &reqs {
        let shape = expr_shape(doc, o.tok);
        let kind = match o.kind {
            Some(k) => format!("{:?}", k).to_lowercase(),
            None => "unbound".into(),
        };
        let binding = binding_of(o);
        // the predefined type and the predefined procedures have no declaration: renaming one
        // of them cannot keep the diagnostics, so rename must not be offered for them (a local
        // that is merely *named* int or printi is an ordinary variable)
        let predefined = matches!(binding, Some(Binding::Builtin(_)));
        let is_int = predefined && o.name == "int";
        let members: Vec<usize> = binding.as_ref().map(|b| sets[b].clone()).unwrap_or_default();
        // --- references: all *other* occurrences
        let want_refs: BTreeSet<(u64, u64, u64, u64)> =
            members.iter().filter(|t| **t != o.tok).map(|t| range_key(&doc.tok_range(*t))).collect();
        let got = result(*id_ref);
        let got_refs: Option<BTreeSet<(u64, u64, u64, u64)>> = match &got {
            Some(Value::Array(a)) => Some(a.iter().map(|l| range_key(&l["range"])).collect()),
            Some(Value::Null) => Some(BTreeSet::new()),
            _ => None,
        };
        let got_len = got.as_ref().and_then(|g| g.as_array()).map(|a| a.len()).unwrap_or(0);
        if !is_int && (got_refs.as_ref() != Some(&want_refs) || got_len != want_refs.len()) && fails.len() < 40 {
            // which member shapes are missing / spurious
            let missing: Vec<&str> = members
                .iter()
                .filter(|t| **t != o.tok && !got_refs.as_ref().map(|g| g.contains(&range_key(&doc.tok_range(**t)))).unwrap_or(false))
                .map(|t| expr_shape(doc, *t))
                .collect();
            let mut shapes: Vec<&str> = missing.clone();
            shapes.sort();
            shapes.dedup();
            fails.push(Failure {
                key: format!("references:{}:{}", kind, if shapes.is_empty() { "spurious-or-duplicate".to_string() } else { format!("missing-{}", shapes.join("+")) }),
                case: doc.case(json!({"method": "textDocument/references", "token": o.tok, "name": o.name, "position": doc.tok_positions(o.tok)[0],
                    "expected_ranges": want_refs.iter().collect::<Vec<_>>()})),
                detail: format!("cursor on #{} {:?} ({}): got {:?}, expected {:?}", o.tok, o.name, shape, got_refs, want_refs),
            });
        }
        // --- rename: one edit per occurrence incl. declaration
        let want_edits: BTreeSet<(u64, u64, u64, u64)> = members.iter().map(|t| range_key(&doc.tok_range(*t))).collect();
        let ren = result(*id_ren);
        let edits: Option<Vec<Value>> = ren.as_ref().and_then(|r| r.get("changes")).and_then(|c| c.get(URI)).and_then(|e| e.as_array().cloned());
        let offered = edits.is_some();
        if predefined {
            if offered {
                fails.push(Failure {
                    key: format!("rename:offered-for-predefined-{}", kind),
                    case: doc.case(json!({"method": "textDocument/rename", "token": o.tok, "name": o.name, "new_name": fresh(o.tok), "position": doc.tok_positions(o.tok).last(), "expected_answer": Value::Null})),
                    detail: format!("rename of the predefined {} {:?} returned edits {:?}", kind, o.name, edits),
                });
            }
        } else {
            let got_edits: BTreeSet<(u64, u64, u64, u64)> = edits.iter().flatten().map(|e| range_key(&e["range"])).collect();
            let all_named = edits.iter().flatten().all(|e| e["newText"] == json!(fresh(o.tok)));
            let n_edits = edits.as_ref().map(|e| e.len()).unwrap_or(0);
            let other_uris = ren.as_ref().and_then(|r| r.get("changes")).and_then(|c| c.as_object()).map(|m| m.len() > 1).unwrap_or(false);
            if (got_edits != want_edits || !all_named || n_edits != want_edits.len() || other_uris) && fails.len() < 40 {
                let missing: Vec<&str> = members.iter().filter(|t| !got_edits.contains(&range_key(&doc.tok_range(**t)))).map(|t| expr_shape(doc, *t)).collect();
                let mut shapes = missing.clone();
                shapes.sort();
                shapes.dedup();
                fails.push(Failure {
                    key: format!("rename:{}:{}", kind, if shapes.is_empty() { "spurious-or-duplicate".to_string() } else { format!("missing-{}", shapes.join("+")) }),
                    case: doc.case(json!({"method": "textDocument/rename", "token": o.tok, "name": o.name, "new_name": fresh(o.tok), "position": doc.tok_positions(o.tok).last(),
                        "expected_ranges": want_edits.iter().collect::<Vec<_>>()})),
                    detail: format!("cursor on #{} {:?}: edits {:?}, expected {:?}", o.tok, o.name, got_edits, want_edits),
                });
            } else if let (Some(b @ Binding::Decl(_)), Some(e)) = (binding.clone(), edits.clone()) {
                // predefined entities have no declaration to rename, and renaming `main`
                // legitimately changes the diagnostics (main is missing): both are excluded
                // from the apply / re-query / rename-back phase
                if o.name != "main" {
                    second_phase.entry(b).or_insert((o.tok, e));
                }
            }
        }
        // --- prepareRename: identifier range exactly when rename is offered
        for id in [id_p1, id_p2] {
            let p = result(*id);
            let want = if offered { doc.tok_range(o.tok) } else { Value::Null };
            if p.as_ref() != Some(&want) && fails.len() < 40 {
                fails.push(Failure {
                    key: format!("prepareRename:{}", kind),
                    case: doc.case(json!({"method": "textDocument/prepareRename", "token": o.tok, "position": doc.tok_positions(o.tok)[0], "expected_answer": want})),
                    detail: format!("cursor on #{} {:?}: got {:?}, expected {} (rename offered: {})", o.tok, o.name, p, want, offered),
                });
            }
        }
    }
    // second phase: apply the rename, re-open, re-query, rename back
    for (b, (tok, edits)) in second_phase {
        let Some(new_text) = apply_edits(doc.text(), &edits) else {
            fails.push(Failure { key: "rename:overlapping-edits".into(), case: doc.case(json!({"token": tok})), detail: format!("{:?}", edits) });
            continue;
        };
        // position of the renamed cursor occurrence in the new text: edits before it shift it
        let members = &sets[&b];
        let old_len = doc.pr.toks[tok].text.len() as isize;
        let delta = fresh(tok).len() as isize - old_len;
        let new_start = |t: usize| -> usize {
            let before = members.iter().filter(|m| **m < t).count() as isize;
            (doc.r.tok_ranges[t].0 as isize + before * delta) as usize
        };
        let mut s2 = Session::new(true);
        s2.open(URI, &new_text);
        let (l, c) = lsptext::position(&new_text, new_start(tok));
        let id_refs = s2.pos_request("textDocument/references", URI, l, c);
        let id_back = {
            let mut params = json!({"textDocument": {"uri": URI}, "position": {"line": l, "character": c}});
            params["newName"] = json!(doc.pr.toks[tok].text);
            s2.request("textDocument/rename", params)
        };
        let o2 = s2.run();
        let r2 = o2.responses();
        let diags = o2.notifications("textDocument/publishDiagnostics").last().map(|n| n["params"]["diagnostics"].as_array().map(|a| a.len()).unwrap_or(0)).unwrap_or(0);
        // the original is well typed, so the renamed program must be too
        if diags != 0 {
            fails.push(Failure {
                key: "rename:diagnostics-after-rename".into(),
                case: doc.case(json!({"token": tok, "renamed_text": new_text})),
                detail: format!("{} diagnostics after renaming {:?}", diags, doc.pr.toks[tok].text),
            });
        }
        let want: BTreeSet<(u64, u64, u64, u64)> = members
            .iter()
            .filter(|t| **t != tok)
            .map(|t| {
                let s = new_start(*t);
                let (l1, c1) = lsptext::position(&new_text, s);
                let (l2, c2) = lsptext::position(&new_text, s + fresh(tok).len());
                (l1 as u64, c1 as u64, l2 as u64, c2 as u64)
            })
            .collect();
        let got: BTreeSet<(u64, u64, u64, u64)> = r2
            .get(&id_refs)
            .and_then(|r| r.get("result"))
            .and_then(|r| r.as_array())
            .map(|a| a.iter().map(|l| range_key(&l["range"])).collect())
            .unwrap_or_default();
        if got != want {
            fails.push(Failure {
                key: "rename:binding-set-changed".into(),
                case: doc.case(json!({"token": tok, "renamed_text": new_text})),
                detail: format!("references after rename {:?}, expected {:?}", got, want),
            });
        }
        let back = r2
            .get(&id_back)
            .and_then(|r| r.get("result"))
            .and_then(|r| r.get("changes"))
            .and_then(|c| c.get(URI))
            .and_then(|e| e.as_array().cloned())
            .and_then(|e| apply_edits(&new_text, &e));
        if back.as_deref() != Some(doc.text()) {
            fails.push(Failure {
                key: "rename:back-does-not-restore".into(),
                case: doc.case(json!({"token": tok, "renamed_text": new_text})),
                detail: format!("renaming back gives {:?}", back),
            });
        }
    }
    (fails, n)
}

pub fn run(tier: Tier) -> Report {
    let mut rep = Report::new("C13", tier);
    let items = progs::typed_family(tier);
    let calls = AtomicU64::new(0);
    let docs = AtomicU64::new(0);
    let fails: Vec<Failure> = items
        .par_iter()
        .enumerate()
        .flat_map_iter(|(i, it)| {
            let pr = print_program(&it.program);
            let nvar = if (it.family == "scenario-permutations" || progs::always_included(it.family)) { 7 } else { 1 + (i % 3 == 0) as usize };
            let vars = doc_variants(&pr, 6);
            let mut out = vec![];
            for k in 0..nvar {
                let (layout, gaps) = vars[(i + k) % vars.len()].clone();
                let doc = Doc::new(it, layout, gaps);
                let (f, n) = eval_doc(&doc);
                calls.fetch_add(n, Ordering::Relaxed);
                docs.fetch_add(1, Ordering::Relaxed);
                out.extend(f);
            }
            out
        })
        .collect();
    rep.states = docs.load(Ordering::Relaxed);
    rep.transitions = calls.load(Ordering::Relaxed);
    rep.evaluations = rep.transitions;
    rep.traces_validated = rep.transitions;
    rep.distinct_nontrivial = items.len() as u64;
    rep.rule = "well-typed programs (variables used inside parentheses, after unary minus, inside index expressions, as arguments and in conditions; same local names in several procedures; shadowing) x layouts/comment placements x every identifier occurrence: references = the other occurrences of the binding, rename = one edit per occurrence, prepareRename = identifier range iff rename is offered; per binding the rename is applied, the result re-opened (no diagnostics), references re-queried, and renamed back".into();
    rep.bounds = json!({"programs": items.len(), "documents": rep.states});
    rep.sample(json!({"text": "proc main() { var i: int; i := (i) + -i; }", "request": "references on the first use of i -> declaration and the two other uses"}));
    rep.assumptions = vec!["bindings from refsem.rs".into()];
    rep.failures = fails;
    rep
}

pub fn replay(case: &Value) -> Vec<Failure> {
    let text = case["text"].as_str().unwrap_or("");
    let rq = &case["request"];
    let method = rq["method"].as_str().unwrap_or("");
    let mut s = Session::new(true);
    s.open(URI, text);
    let id = if let Some(p) = rq["position"].as_array() {
        let (l, c) = (p[0].as_u64().unwrap_or(0) as u32, p[1].as_u64().unwrap_or(0) as u32);
        if let (Some(n), "textDocument/rename") = (rq["new_name"].as_str(), method) {
            let mut params = json!({"textDocument": {"uri": URI}, "position": {"line": l, "character": c}});
            params["newName"] = json!(n);
            Some(s.request(method, params))
        } else {
            Some(s.pos_request(method, URI, l, c))
        }
    } else {
        None
    };
    let o = s.run();
    if let Some(e) = o.error.clone().or(o.frame_error.clone()) {
        return vec![Failure { key: "refs:error".into(), case: case.clone(), detail: e }];
    }
    let Some(id) = id else { return vec![] };
    let got = o.responses().get(&id).and_then(|r| r.get("result").cloned()).unwrap_or(Value::Null);
    let ranges: BTreeSet<(u64, u64, u64, u64)> = match method {
        "textDocument/references" => got.as_array().map(|a| a.iter().map(|l| range_key(&l["range"])).collect()).unwrap_or_default(),
        "textDocument/rename" => got["changes"][URI].as_array().map(|a| a.iter().map(|e| range_key(&e["range"])).collect()).unwrap_or_default(),
        _ => BTreeSet::new(),
    };
    if let Some(exp) = rq["expected_ranges"].as_array() {
        let want: BTreeSet<(u64, u64, u64, u64)> = exp.iter().map(|r| (r[0].as_u64().unwrap_or(0), r[1].as_u64().unwrap_or(0), r[2].as_u64().unwrap_or(0), r[3].as_u64().unwrap_or(0))).collect();
        if ranges != want {
            return vec![Failure { key: format!("{}:occurrence-set", method), case: case.clone(), detail: format!("got {:?}, expected {:?}", ranges, want) }];
        }
    }
    if let Some(want) = rq.get("expected_answer") {
        if &got != want {
            return vec![Failure { key: format!("{}:answer", method), case: case.clone(), detail: format!("got {}, expected {}", got, want) }];
        }
    }
    vec![]
}
