//! Shared machinery of the formatting checks C09 / C10 / C11.
use crate::gen::ast::*;
use crate::gen::layout::*;
use crate::lsptext;
use crate::reflex::{self, RKind, RTok};
use crate::session::*;
use serde_json::{json, Value};

#[derive(Clone, Copy, Debug, PartialEq, Eq, Hash)]
pub struct Opt {
    pub tab_size: u32,
    pub insert_spaces: bool,
}
impl Opt {
    pub fn unit(&self) -> String {
        if self.insert_spaces {
            " ".repeat(self.tab_size as usize)
        } else {
            "\t".to_string()
        }
    }
    pub fn json(&self) -> Value {
        json!({"tabSize": self.tab_size, "insertSpaces": self.insert_spaces})
    }
}
pub const DEFAULT_OPT: Opt = Opt { tab_size: 4, insert_spaces: true };
pub fn all_opts() -> Vec<Opt> {
    let mut v: Vec<Opt> = (0..=8).map(|t| Opt { tab_size: t, insert_spaces: true }).collect();
    v.push(Opt { tab_size: 4, insert_spaces: false });
    v.push(Opt { tab_size: 0, insert_spaces: false });
    v
}

#[derive(Clone, Debug)]
pub struct FmtAnswer {
    /// None = `null` result
    pub edits: Option<Vec<Value>>,
    /// diagnostics published for the opened text (message, start offset, end offset)
    pub diagnostics: Vec<Value>,
}

/// Opens `text` (client announces publishDiagnostics) and formats it once per option.
pub fn format_requests(text: &str, opts: &[Opt]) -> Result<Vec<FmtAnswer>, String> {
    let mut s = Session::new(true);
    s.open(URI, text);
    let ids: Vec<i64> = opts
        .iter()
        .map(|o| s.request("textDocument/formatting", json!({"textDocument": {"uri": URI}, "options": o.json()})))
        .collect();
    let o = s.run();
    if let Some(e) = o.error.clone().or(o.frame_error.clone()) {
        return Err(e);
    }
    let diags = o
        .notifications("textDocument/publishDiagnostics")
        .last()
        .map(|n| n["params"]["diagnostics"].as_array().cloned().unwrap_or_default())
        .unwrap_or_default();
    let resp = o.responses();
    let mut out = vec![];
    for id in ids {
        let r = resp.get(&id).ok_or("missing formatting response")?;
        let res = r.get("result").ok_or_else(|| format!("formatting answered with an error: {}", r))?;
        out.push(FmtAnswer {
            edits: if res.is_null() { None } else { Some(res.as_array().cloned().ok_or("result is not an array")?) },
            diagnostics: diags.clone(),
        });
    }
    Ok(out)
}

/// Applies the answer under the rule of C09: `null` = unchanged; otherwise exactly one
/// TextEdit whose range is exactly the whole document. Err(kind, detail).
pub fn apply_whole_document_edit(text: &str, a: &FmtAnswer) -> Result<String, (String, String)> {
    let Some(edits) = &a.edits else {
        return Ok(text.to_string());
    };
    if edits.len() != 1 {
        return Err(("edit-count".into(), format!("{} edits", edits.len())));
    }
    let e = &edits[0];
    let (sl, sc) = (e["range"]["start"]["line"].as_u64(), e["range"]["start"]["character"].as_u64());
    let (el, ec) = (e["range"]["end"]["line"].as_u64(), e["range"]["end"]["character"].as_u64());
    let want_end = lsptext::position(text, text.len());
    let got = (sl, sc, el, ec);
    let want = (Some(0), Some(0), Some(want_end.0 as u64), Some(want_end.1 as u64));
    if got != want {
        return Err((
            "edit-range-not-whole-document".into(),
            format!("range {:?}, whole document is {:?}", got, want),
        ));
    }
    Ok(e["newText"].as_str().unwrap_or("").to_string())
}

pub fn non_comment(toks: &[RTok]) -> Vec<RKind> {
    toks.iter()
        .filter(|t| !matches!(t.kind, RKind::Comment(_)))
        .map(|t| t.kind.clone())
        .collect()
}
pub fn comments(toks: &[RTok]) -> Vec<String> {
    toks.iter()
        .filter_map(|t| match &t.kind {
            RKind::Comment(c) => Some(c.trim().to_string()),
            _ => None,
        })
        .collect()
}

/// diagnostics as (message, index span in non-comment token numbering) for comparison across
/// two layouts of one program
pub fn diag_token_spans(text: &str, diags: &[Value]) -> Vec<(String, i64, i64)> {
    let toks: Vec<RTok> = reflex::lex(text).into_iter().filter(|t| !matches!(t.kind, RKind::Comment(_))).collect();
    // a range boundary inside white space or a comment is normalised to the adjacent
    // non-comment token: start -> first token ending after the offset, end -> last token
    // starting before the offset (comments may legitimately move when formatting)
    let idx = |off: usize, is_end: bool| -> i64 {
        if is_end {
            toks.iter().rposition(|t| t.start < off).map(|i| i as i64).unwrap_or(-1)
        } else {
            toks.iter().position(|t| t.end > off).map(|i| i as i64).unwrap_or(toks.len() as i64)
        }
    };
    let mut v: Vec<(String, i64, i64)> = diags
        .iter()
        .map(|d| {
            let s = lsptext::offset(text, d["range"]["start"]["line"].as_u64().unwrap_or(0) as u32, d["range"]["start"]["character"].as_u64().unwrap_or(0) as u32).unwrap_or(0);
            let e = lsptext::offset(text, d["range"]["end"]["line"].as_u64().unwrap_or(0) as u32, d["range"]["end"]["character"].as_u64().unwrap_or(0) as u32).unwrap_or(0);
            if s == e {
                // an empty range marks a position, not a construct (the "main is missing" of the
                // whole program sits behind the first token of the text, whatever that is - a
                // comment that moves in front of the first token moves it)
                return (d["message"].as_str().unwrap_or("").to_string(), -2, -2);
            }
            (d["message"].as_str().unwrap_or("").to_string(), idx(s, false), idx(e, true))
        })
        .collect();
    v.sort();
    v
}

/// gap class of a comment placement (generator vocabulary): previous token, next token
pub fn tok_class(t: Option<&Tok>) -> String {
    match t {
        None => "^".into(),
        Some(t) => match &t.class {
            TokClass::Keyword | TokClass::Symbol => t.text.clone(),
            TokClass::Ident(_) => "id".into(),
            TokClass::Number => "num".into(),
        },
    }
}

/// innermost node (by span) that strictly contains gap g in its interior, i.e. first < g < end
pub fn innermost_node(pr: &Printed, g: usize) -> String {
    let mut best: Option<&Span> = None;
    for s in &pr.spans {
        if s.first < g && g < s.end {
            if best.map(|b| (s.end - s.first) <= (b.end - b.first)).unwrap_or(true) {
                best = Some(s);
            }
        }
    }
    best.map(|s| format!("{:?}", s.kind)).unwrap_or_else(|| "top-level".into())
}

pub fn gap_key(pr: &Printed, g: usize) -> String {
    let prev = if g == 0 { None } else { pr.toks.get(g - 1) };
    let next = pr.toks.get(g);
    let nx = if next.is_none() { "$".to_string() } else { tok_class(next) };
    format!("{}~{}~{}", innermost_node(pr, g), tok_class(prev), nx)
}

pub fn render_default(pr: &Printed, layout: Layout, gaps: &[usize]) -> Rendered {
    render(&pr.toks, layout, gaps, &|g| format!(" c{}", g))
}

/// Comment ownership class of gap g in the vocabulary of the generator: the innermost
/// declaration / statement node that contains token g, whether the comment leads that node,
/// and whether the node is a block used as branch of an if / while.
pub fn owner_key(pr: &Printed, g: usize) -> String {
    if g >= pr.toks.len() {
        return "after-last-token".into();
    }
    let managing = |k: &NodeKind| {
        matches!(
            k,
            NodeKind::TypeDecl
                | NodeKind::ProcDecl
                | NodeKind::Param
                | NodeKind::VarDecl
                | NodeKind::StmtAssign
                | NodeKind::StmtCall
                | NodeKind::StmtEmpty
                | NodeKind::StmtIf
                | NodeKind::StmtWhile
                | NodeKind::StmtBlock
        )
    };
    let mut best: Option<(usize, &Span)> = None;
    for (i, s) in pr.spans.iter().enumerate() {
        if managing(&s.kind) && s.first <= g && g < s.end {
            if best.map(|(_, b)| (s.end - s.first) <= (b.end - b.first)).unwrap_or(true) {
                best = Some((i, s));
            }
        }
    }
    if let Some((_, s)) = best {
        // the gap in front of the closing brace of a procedure body that consists of variable
        // declarations only (the repository's own formatting snapshot drops a comment there)
        if s.kind == NodeKind::ProcDecl && g + 1 == s.end {
            let inside = |k: &dyn Fn(&NodeKind) -> bool| pr.spans.iter().any(|x| k(&x.kind) && s.first <= x.first && x.end <= s.end && (x.first, x.end) != (s.first, s.end));
            let has_vars = inside(&|k| *k == NodeKind::VarDecl);
            let has_stmts = inside(&|k| matches!(k, NodeKind::StmtAssign | NodeKind::StmtCall | NodeKind::StmtEmpty | NodeKind::StmtIf | NodeKind::StmtWhile | NodeKind::StmtBlock));
            if has_vars && !has_stmts {
                return "ProcDecl:behind-the-last-variable-declaration-of-a-body-without-statements".into();
            }
        }
    }
    match best {
        None => "top-level".into(),
        Some((i, s)) => format!(
            "{:?}{}:{}",
            s.kind,
            if pr.branch_blocks.contains(&i) { "(branch)" } else { "" },
            if g == s.first { "leading" } else { "inner" }
        ),
    }
}
