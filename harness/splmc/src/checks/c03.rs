//! C03 — diagnostics are exactly what SPL prescribes, and point at the culprit.  E-INPUT.
use crate::checks::nav::*;
use crate::common::*;
use crate::gen::ast::*;
use crate::gen::enumerate::*;
use crate::gen::families::*;
use crate::gen::layout::*;
use crate::gen::refsem::{self, Rule};
use crate::lsptext;
use crate::progs::{self, Item};
use crate::session::*;
use rayon::prelude::*;
use serde_json::{json, Value};
use spl_frontend::error::{BuildErrorMessage as B, ErrorMessage, SemanticErrorMessage as S};
use spl_frontend::{AnalyzedSource, ErrorContainer};
use std::collections::BTreeMap;
use std::sync::atomic::{AtomicU64, Ordering};
use std::sync::Arc;

/// message kind of the implementation -> rule of the reference checker (None = lexical/syntax)
fn rule_of(m: &ErrorMessage) -> Option<Rule> {
    Some(match m {
        ErrorMessage::BuildErrorMessage(b) => match b {
            B::UndefinedType(_) => Rule::UndefinedType,
            B::NotAType(_) => Rule::NotAType,
            B::RedeclarationAsType(_) => Rule::RedeclarationAsType,
            B::MustBeAReferenceParameter(_) => Rule::MustBeAReferenceParameter,
            B::RedeclarationAsProcedure(_) => Rule::RedeclarationAsProcedure,
            B::RedeclarationAsParameter(_) => Rule::RedeclarationAsParameter,
            B::RedeclarationAsVariable(_) => Rule::RedeclarationAsVariable,
            B::MainIsMissing => Rule::MainIsMissing,
            B::MainIsNotAProcedure => Rule::MainIsNotAProcedure,
            B::MainMustNotHaveParameters => Rule::MainMustNotHaveParameters,
            // (a message kind added to the code under test: no rule of the reference checker)
            #[allow(unreachable_patterns)]
            _ => return None,
        },
        ErrorMessage::SemanticErrorMessage(s) => match s {
            S::AssignmentHasDifferentTypes => Rule::AssignmentHasDifferentTypes,
            S::AssignmentRequiresIntegers => Rule::AssignmentRequiresIntegers,
            S::IfConditionMustBeBoolean => Rule::IfConditionMustBeBoolean,
            S::WhileConditionMustBeBoolean => Rule::WhileConditionMustBeBoolean,
            S::UndefinedProcedure(_) => Rule::UndefinedProcedure,
            S::CallOfNoneProcedure(_) => Rule::CallOfNoneProcedure,
            S::ArgumentsTypeMismatch(_, _) => Rule::ArgumentsTypeMismatch,
            S::ArgumentMustBeAVariable(_, _) => Rule::ArgumentMustBeAVariable,
            S::TooFewArguments(_) => Rule::TooFewArguments,
            S::TooManyArguments(_) => Rule::TooManyArguments,
            S::OperatorDifferentTypes => Rule::OperatorDifferentTypes,
            S::ComparisonNonInteger => Rule::ComparisonNonInteger,
            S::ArithmeticOperatorNonInteger => Rule::ArithmeticOperatorNonInteger,
            S::UndefinedVariable(_) => Rule::UndefinedVariable,
            S::NotAVariable(_) => Rule::NotAVariable,
            S::IndexingNonArray => Rule::IndexingNonArray,
            S::IndexingWithNonInteger => Rule::IndexingWithNonInteger,
            #[allow(unreachable_patterns)]
            _ => return None,
        },
        _ => return None,
    })
}

// ------------------------------------------------------------------------------------------
// single-fault programs beyond those the expression/statement families contain
// ------------------------------------------------------------------------------------------
fn fault_pools() -> Pools {
    let mut p = typed_pools();
    p.vars = vec!["i".into(), "a".into(), "zz".into(), "A".into(), "q".into()];
    p.arrays = vec!["a".into(), "i".into()];
    p.procs = vec![("q".into(), vec![2, 3, 4]), ("zz".into(), vec![0, 1]), ("i".into(), vec![0, 1]), ("A".into(), vec![0]), ("printi".into(), vec![0, 1, 2]), ("r".into(), vec![1])];
    p.unary = false;
    p
}

fn with_extra_decl(extra: RDecl, at: usize) -> RProgram {
    let mut p = program_with_main(vec![RStmt::Assign(vname("i"), eint(1))], Placement::MainLast);
    let at = at.min(p.decls.len());
    p.decls.insert(at, extra);
    p
}

fn declaration_faults() -> Vec<Item> {
    let mut out = vec![];
    let mut push = |p: RProgram, focus: usize| out.push(Item { family: "declaration-faults", program: p, focus_decl: focus });
    let empty_proc = |name: &str, params: Vec<RParam>, vars: Vec<RVarDecl>| RDecl::Proc { name: name.into(), params, vars, body: vec![] };
    let base_len = program_with_main(vec![], Placement::MainLast).decls.len();
    for at in [2, base_len] {
        // redeclarations (of declared and of predefined names)
        push(with_extra_decl(RDecl::Type { name: "A".into(), ty: tname("int") }, at), at);
        push(with_extra_decl(RDecl::Type { name: "q".into(), ty: tname("int") }, base_len), base_len);
        push(with_extra_decl(RDecl::Type { name: "printi".into(), ty: tname("int") }, at), at);
        push(with_extra_decl(RDecl::Type { name: "int".into(), ty: arr(2, tname("int")) }, at), at);
        push(with_extra_decl(empty_proc("q", vec![], vec![]), base_len), base_len);
        push(with_extra_decl(empty_proc("A", vec![], vec![]), at), at);
        push(with_extra_decl(empty_proc("readi", vec![], vec![]), at), at);
        // ... whose bodies use their own locals (the redeclaration is the only violation)
        let with_body = |name: &str| RDecl::Proc {
            name: name.into(),
            params: vec![RParam { is_ref: true, name: "p".into(), ty: tname("A") }],
            vars: vec![RVarDecl { name: "k".into(), ty: tname("int") }],
            body: vec![RStmt::Assign(vname("k"), RExpr::Var(idx(vname("p"), eint(0)))), RStmt::Call("printi".into(), vec![evar("k")])],
        };
        push(with_extra_decl(with_body("q"), base_len), base_len);
        push(with_extra_decl(with_body("printi"), at), at);
        push(with_extra_decl(with_body("A"), at), at);
        let pi = |n: &str, r: bool, t: RType| RParam { is_ref: r, name: n.into(), ty: t };
        let vi = |n: &str, t: RType| RVarDecl { name: n.into(), ty: t };
        push(with_extra_decl(empty_proc("p", vec![pi("x", false, tname("int")), pi("x", true, tname("int"))], vec![]), at), at);
        push(with_extra_decl(empty_proc("p", vec![pi("x", false, tname("int"))], vec![vi("x", tname("int"))]), at), at);
        push(with_extra_decl(empty_proc("p", vec![], vec![vi("v", tname("int")), vi("w", tname("A")), vi("v", tname("A"))]), at), at);
        // type rules
        push(with_extra_decl(empty_proc("p", vec![], vec![vi("v", tname("zz"))]), at), at);
        push(with_extra_decl(empty_proc("p", vec![pi("x", true, tname("zz"))], vec![]), at), at);
        push(with_extra_decl(RDecl::Type { name: "T".into(), ty: arr(2, tname("zz")) }, at), at);
        push(with_extra_decl(empty_proc("p", vec![], vec![vi("v", tname("q"))]), base_len), base_len);
        push(with_extra_decl(empty_proc("p", vec![pi("x", false, tname("int"))], vec![vi("v", arr(2, tname("x")))]), at), at);
        push(with_extra_decl(RDecl::Type { name: "T".into(), ty: tname("printi") }, at), at);
        push(with_extra_decl(empty_proc("p", vec![pi("x", false, tname("A"))], vec![]), at), at);
        push(with_extra_decl(empty_proc("p", vec![pi("y", true, tname("int")), pi("x", false, arr(2, tname("int")))], vec![]), at), at);
        // a variable named int hides the predefined type in the declarations behind it
        push(with_extra_decl(empty_proc("p", vec![], vec![vi("int", tname("A")), vi("k", tname("int"))]), at), at);
        // a type used before its declaration
        push(with_extra_decl(empty_proc("p", vec![], vec![vi("v", tname("M"))]), 1), 1);
    }
    // `type main` next to a proper main procedure
    for at in [0, base_len] {
        push(with_extra_decl(RDecl::Type { name: "main".into(), ty: tname("int") }, at), at);
        push(with_extra_decl(RDecl::Type { name: "main".into(), ty: arr(2, tname("A")) }, base_len), base_len);
    }
    // main rules
    let mut no_main = program_with_main(vec![], Placement::MainLast);
    no_main.decls.retain(|d| !matches!(d, RDecl::Proc { name, .. } if name == "main"));
    push(no_main.clone(), 0);
    push(RProgram::default(), 0);
    for at in [0, 2, 4] {
        let mut p = no_main.clone();
        p.decls.insert(at.min(p.decls.len()), RDecl::Proc { name: "main".into(), params: vec![RParam { is_ref: false, name: "x".into(), ty: tname("int") }], vars: vec![], body: vec![] });
        push(p, at);
    }
    out
}

/// Array types are equal only if they stem from the same type expression (name equivalence):
/// structurally equal named and anonymous array types used where another one is expected.
fn type_equivalence_faults() -> Vec<Item> {
    let mut out = vec![];
    let anon = || arr(2, tname("int"));
    let stmts: Vec<RStmt> = vec![
        RStmt::Call("q".into(), vec![eint(1), evar("i"), evar("c")]),
        RStmt::Call("q".into(), vec![eint(1), evar("i"), evar("d")]),
        RStmt::Call("q".into(), vec![eint(1), evar("i"), evar("a")]),
        RStmt::Call("q".into(), vec![eint(1), evar("i"), evar("b")]),
        RStmt::Call("r".into(), vec![evar("c")]),
        RStmt::Call("r".into(), vec![evar("d")]),
        RStmt::Call("s".into(), vec![evar("d")]),
        RStmt::Call("s".into(), vec![evar("x")]),
        RStmt::Call("s".into(), vec![evar("a")]),
        // a named type that is spelled like "procedure_parameter"
        RStmt::Call("s".into(), vec![evar("g")]),
        RStmt::Call("t".into(), vec![evar("c")]),
        RStmt::Call("t".into(), vec![evar("a")]),
        RStmt::Call("r".into(), vec![RExpr::Var(idx(vname("m"), eint(0)))]),
        RStmt::Call("t".into(), vec![RExpr::Var(idx(vname("m"), eint(0)))]),
        RStmt::Assign(vname("c"), evar("a")),
        RStmt::Assign(vname("a"), evar("c")),
        RStmt::Assign(vname("d"), evar("e")),
        RStmt::Assign(vname("a"), evar("b")),
        RStmt::Assign(vname("a"), evar("d")),
        RStmt::If(bin(Op::Equ, evar("c"), evar("a")), Arc::new(RStmt::Empty), None),
        RStmt::If(bin(Op::Equ, evar("d"), evar("e")), Arc::new(RStmt::Empty), None),
        RStmt::While(bin(Op::Lst, evar("a"), evar("d")), Arc::new(RStmt::Empty)),
        RStmt::Assign(vname("i"), bin(Op::Add, evar("c"), evar("a"))),
    ];
    for (k, st) in stmts.into_iter().enumerate() {
        let mut decls = prelude_types();
        decls.push(RDecl::Type { name: "C".into(), ty: anon() });
        decls.push(RDecl::Type { name: "B".into(), ty: tname("A") });
        decls.push(RDecl::Type { name: "s_x".into(), ty: anon() });
        decls.push(proc_q());
        decls.push(proc_r());
        decls.push(RDecl::Proc { name: "s".into(), params: vec![RParam { is_ref: true, name: "x".into(), ty: anon() }], vars: vec![], body: vec![] });
        decls.push(RDecl::Proc { name: "t".into(), params: vec![RParam { is_ref: true, name: "x".into(), ty: tname("C") }], vars: vec![], body: vec![] });
        let mut vars = main_locals();
        for (n, t) in [("b", tname("B")), ("c", tname("C")), ("d", anon()), ("e", anon()), ("x", anon()), ("g", tname("s_x"))] {
            vars.push(RVarDecl { name: n.into(), ty: t });
        }
        let main = RDecl::Proc { name: "main".into(), params: vec![], vars, body: vec![st] };
        if k % 2 == 0 {
            decls.push(main);
        } else {
            decls.insert(5, main);
        }
        let f = decls.iter().position(|d| matches!(d, RDecl::Proc { name, .. } if name == "main")).unwrap_or(0);
        out.push(Item { family: "type-equivalence", program: RProgram { decls }, focus_decl: f });
    }
    out
}

fn statement_faults(tier: Tier) -> Vec<Item> {
    let mut out = vec![];
    let mut en = Enumerator::new(fault_pools());
    let stmts = en.stmts_upto(tier.pick(7, 9));
    for (i, s) in stmts.iter().enumerate() {
        for (ci, c) in STMT_CTXS.iter().enumerate() {
            // all contexts for every 5th statement, body context for the rest
            if ci > 0 && i % 5 != 0 {
                continue;
            }
            if let Some(body) = stmt_in_ctx(s, *c) {
                let p = program_with_main(body, if i % 2 == 0 { Placement::MainLast } else { Placement::MainMiddle });
                let f = p.decls.iter().position(|d| matches!(d, RDecl::Proc { name, .. } if name == "main")).unwrap_or(0);
                out.push(Item { family: "statement-faults", program: p, focus_decl: f });
            }
        }
    }
    let _ = Arc::new(0);
    out
}

#[derive(Default, Clone)]
pub struct Stats {
    pub well_typed: u64,
    pub single_fault: BTreeMap<String, u64>,
    pub skipped_multi_fault: u64,
}

fn byte_span(doc: &Doc, first: usize, end: usize) -> (usize, usize) {
    if first >= end || doc.r.tok_ranges.is_empty() {
        return (0, doc.text().len());
    }
    // comments directly in front of the construct may be covered (node ranges own their
    // leading comments)
    let tok_start = doc.r.tok_ranges[first].0;
    let prev_end = if first == 0 { 0 } else { doc.r.tok_ranges[first - 1].1 };
    let lead_start = doc
        .r
        .comments
        .iter()
        .filter(|(_, s, _, _)| *s >= prev_end && *s < tok_start)
        .map(|(_, s, _, _)| *s)
        .min()
        .unwrap_or(tok_start);
    (lead_start, doc.r.tok_ranges[end - 1].1)
}

pub fn eval_doc(doc: &Doc, via_lsp: bool) -> (Vec<Failure>, &'static str, Option<Rule>) {
    let mut fails = vec![];
    let sem_errs: Vec<_> = doc.sem.errors.iter().filter(|e| e.rule != Rule::UnaryMinusNonInteger).collect();
    if doc.sem.errors.iter().any(|e| e.rule == Rule::UnaryMinusNonInteger) || sem_errs.len() > 1 {
        return (fails, "skipped", None);
    }
    let text = doc.text().to_string();
    let t2 = text.clone();
    let errs = match guarded(move || AnalyzedSource::new(t2).errors()) {
        Ok(e) => e,
        Err(p) => {
            fails.push(Failure { key: "diag:panic".into(), case: doc.case(Value::Null), detail: p });
            return (fails, "error", None);
        }
    };
    // (c) ranges inside the document
    for e in &errs {
        if e.0.start > e.0.end || e.0.end > text.len() || !text.is_char_boundary(e.0.start) || !text.is_char_boundary(e.0.end) {
            fails.push(Failure { key: "diag:range-outside-document".into(), case: doc.case(Value::Null), detail: format!("{:?}", e) });
        }
    }
    let class;
    let mut rule = None;
    let n_before = fails.len();
    let mut expectation = json!({"no_diagnostic": true});
    if sem_errs.is_empty() {
        class = "well-typed";
        if !errs.is_empty() {
            let r = errs.iter().map(|e| rule_of(&e.1).map(|r| format!("{:?}", r)).unwrap_or_else(|| "syntax".into())).next().unwrap();
            fails.push(Failure {
                key: format!("diag:spurious-on-valid-program:{}", r),
                case: doc.case(Value::Null),
                detail: format!("{:?}", errs),
            });
        }
    } else {
        class = "single-fault";
        let want = sem_errs[0];
        rule = Some(want.rule);
        // rules that blame one identifier are reported on that identifier token alone; the
        // other constructs may cover the comments in front of them (node ranges own them)
        let on_identifier = matches!(
            want.rule,
            Rule::RedeclarationAsType
                | Rule::RedeclarationAsProcedure
                | Rule::RedeclarationAsParameter
                | Rule::RedeclarationAsVariable
                | Rule::MustBeAReferenceParameter
                | Rule::NotAType
                | Rule::UndefinedType
                | Rule::NotAVariable
                | Rule::UndefinedVariable
                | Rule::MainIsNotAProcedure
        ) && want.end == want.first + 1;
        let (s, e) = if on_identifier { (doc.r.tok_ranges[want.first].0, doc.r.tok_ranges[want.first].1) } else { byte_span(doc, want.first, want.end) };
        expectation = json!({"only_rule": format!("{:?}", want.rule), "inside_bytes": [s, e]});
        let same: Vec<_> = errs.iter().filter(|x| rule_of(&x.1) == Some(want.rule)).collect();
        let other: Vec<_> = errs.iter().filter(|x| rule_of(&x.1) != Some(want.rule)).collect();
        if same.is_empty() {
            fails.push(Failure {
                key: format!("diag:{:?}:missing", want.rule),
                case: doc.case(Value::Null),
                detail: format!("expected {:?} on tokens {}..{}, got {:?}", want.rule, want.first, want.end, errs),
            });
        } else if !same.iter().any(|x| x.0.start >= s && x.0.end <= e) {
            fails.push(Failure {
                key: format!("diag:{:?}:misplaced", want.rule),
                case: doc.case(Value::Null),
                detail: format!("expected inside bytes {}..{} ({:?}), got {:?}", s, e, &text[s..e], same),
            });
        }
        if let Some(o) = other.first() {
            let r = rule_of(&o.1).map(|r| format!("{:?}", r)).unwrap_or_else(|| "syntax".into());
            fails.push(Failure {
                key: format!("diag:{:?}:extra-{}", want.rule, r),
                case: doc.case(Value::Null),
                detail: format!("only {:?} is violated, got also {:?}", want.rule, other),
            });
        }
    }
    for f in fails.iter_mut().skip(n_before) {
        f.case["expected"] = expectation.clone();
    }
    // the published diagnostics are the same errors, converted by the LSP position rules
    if via_lsp {
        let mut s = Session::new(true);
        s.open(URI, &text);
        let o = s.run();
        let diags = o.notifications("textDocument/publishDiagnostics").last().map(|n| n["params"]["diagnostics"].as_array().cloned().unwrap_or_default());
        match diags {
            None => fails.push(Failure { key: "diag:not-published".into(), case: doc.case(Value::Null), detail: format!("{:?} {:?}", o.error, o.frame_error) }),
            Some(ds) => {
                let want: Vec<Value> = errs
                    .iter()
                    .map(|e| {
                        let (l1, c1) = lsptext::position(&text, e.0.start);
                        let (l2, c2) = lsptext::position(&text, e.0.end);
                        json!({"range": {"start": {"line": l1, "character": c1}, "end": {"line": l2, "character": c2}}, "message": e.1.to_string()})
                    })
                    .collect();
                let got: Vec<Value> = ds.iter().map(|d| json!({"range": d["range"], "message": d["message"]})).collect();
                if got != want {
                    fails.push(Failure { key: "diag:published-differs-from-analysis".into(), case: doc.case(Value::Null), detail: format!("published {:?}\nanalysis {:?}", got, want) });
                }
            }
        }
    }
    (fails, class, rule)
}

pub fn run(tier: Tier) -> Report {
    let mut rep = Report::new("C03", tier);
    let mut items: Vec<Item> = progs::typed_family(tier);
    // everything the syntactic families contain (typed or not): classified by the reference checker
    items.extend(progs::syntactic_family(tier).into_iter().filter(|i| i.family != "G1-whole-programs" && !progs::is_well_typed(&i.program)));
    items.extend(statement_faults(tier));
    items.extend(declaration_faults());
    items.extend(type_equivalence_faults());
    // the program beyond the small bounds with one undefined variable in its last statement
    // (a document above 4 KiB: diagnostics far from the start, in every line-end convention)
    {
        let mut p = progs::scale_program(34, 34, 70);
        if let Some(RDecl::Proc { body, .. }) = p.decls.last_mut() {
            body.push(RStmt::Assign(vname("zz"), eint(1)));
        }
        let f = p.decls.len() - 1;
        items.push(Item { family: "scale-fault", program: p, focus_decl: f });
    }
    let evals = AtomicU64::new(0);
    let stats = std::sync::Mutex::new(Stats::default());
    let fails: Vec<Failure> = items
        .par_iter()
        .enumerate()
        .flat_map_iter(|(i, it)| {
            let pr = print_program(&it.program);
            let vars = doc_variants(&pr, 6);
            let nvar = if it.family == "declaration-faults" || it.family == "scale-fault" || it.family == "type-equivalence" || (it.family == "scenario-permutations" || progs::always_included(it.family)) { 7 } else { 2 };
            let mut out = vec![];
            for k in 0..nvar {
                let (layout, gaps) = vars[(i + k) % vars.len()].clone();
                let doc = Doc::new(it, layout, gaps);
                evals.fetch_add(1, Ordering::Relaxed);
                let (f, class, rule) = eval_doc(&doc, (k == 0 && i % 4 == 0) || it.family == "scale-fault");
                if k == 0 {
                    let mut st = stats.lock().unwrap();
                    match class {
                        "well-typed" => st.well_typed += 1,
                        "single-fault" => *st.single_fault.entry(format!("{:?}", rule.unwrap())).or_default() += 1,
                        "skipped" => st.skipped_multi_fault += 1,
                        _ => {}
                    }
                }
                out.extend(f.into_iter().take(3));
            }
            out
        })
        .collect();
    // missing-token syntax faults: deleting a token the grammar requires (closing bracket,
    // `:` / `of` / `=` of a declaration, `;` of a declaration, assignment or call) or confusing
    // `:=` with `=` must produce a syntax diagnostic inside the enclosing declaration
    let syn_items: Vec<&Item> = items.iter().filter(|i| i.family == "scenario-permutations" || i.family == "stmt@contexts" || i.family == "types").step_by(tier.pick(5, 1)).collect();
    let syn_evals = AtomicU64::new(0);
    let syn_fails: Vec<Failure> = syn_items
        .par_iter()
        .flat_map_iter(|it| {
            let pr = print_program(&it.program);
            let words: Vec<String> = pr.toks.iter().map(|t| t.text.clone()).collect();
            let mut out = vec![];
            for k in 0..words.len() {
                let w = words[k].as_str();
                let required = match w {
                    ")" | "]" | "}" | "of" => true,
                    ":" => true,
                    "=" => k >= 2 && words[k - 2] == "type",
                    // (a following `;` would take over the role of the deleted one)
                    ";" if words.get(k + 1).map(|n| n == ";").unwrap_or(false) => false,
                    // a `;` that terminates an assignment, call or declaration follows an
                    // identifier, a literal, `]` or the `)` of a call; anywhere else it is an
                    // empty statement whose removal can leave a valid program
                    ";" => k >= 1 && (matches!(pr.toks[k - 1].class, TokClass::Ident(_) | TokClass::Number) || words[k - 1] == "]") || (k >= 1 && words[k - 1] == ")" && {
                        // `)` `;` ends a call statement (not an if/while header)
                        let mut depth = 0i32;
                        let mut j = k - 1;
                        loop {
                            match words[j].as_str() {
                                ")" => depth += 1,
                                "(" => {
                                    depth -= 1;
                                    if depth == 0 {
                                        break;
                                    }
                                }
                                _ => {}
                            }
                            if j == 0 {
                                break;
                            }
                            j -= 1;
                        }
                        j >= 1 && !matches!(words[j - 1].as_str(), "if" | "while")
                    }),
                    _ => false,
                };
                let mut variants: Vec<(String, Vec<String>)> = vec![];
                if required {
                    let mut v = words.clone();
                    v.remove(k);
                    variants.push((format!("missing-{}", w), v));
                }
                if w == ":=" {
                    let mut v = words.clone();
                    v[k] = "=".into();
                    variants.push(("confused-assign-with-eq".into(), v));
                }
                if w == "=" && k >= 2 && words[k - 2] == "type" {
                    let mut v = words.clone();
                    v[k] = ":=".into();
                    variants.push(("confused-eq-with-assign".into(), v));
                }
                for (what, v) in variants {
                    syn_evals.fetch_add(1, Ordering::Relaxed);
                    let text = v.join(" ");
                    let t2 = text.clone();
                    let errs = match guarded(move || AnalyzedSource::new(t2).errors()) {
                        Ok(e) => e,
                        Err(p) => {
                            out.push(Failure { key: "diag:syntax:panic".into(), case: json!({"text": text}), detail: p });
                            continue;
                        }
                    };
                    let syn: Vec<_> = errs.iter().filter(|e| rule_of(&e.1).is_none()).collect();
                    // byte span of the enclosing declaration in the damaged text
                    let d = pr.toks[k].decl;
                    let (a, b) = pr.decl_spans[d];
                    let delta: isize = v.len() as isize - words.len() as isize;
                    let lo: usize = v[..a].iter().map(|w| w.len() + 1).sum();
                    let hi_tok = (b as isize + delta) as usize;
                    let hi: usize = if hi_tok >= v.len() { text.len() } else { v[..hi_tok].iter().map(|w| w.len() + 1).sum() };
                    if syn.is_empty() {
                        if out.len() < 6 {
                            out.push(Failure { key: format!("diag:syntax:{}:no-diagnostic", what), case: json!({"text": text, "family": it.family}), detail: format!("token #{} {:?} removed/confused, diagnostics: {:?}", k, w, errs) });
                        }
                    } else if !syn.iter().all(|e| e.0.start + 1 >= lo && e.0.end <= hi) && out.len() < 6 {
                        out.push(Failure { key: format!("diag:syntax:{}:outside-declaration", what), case: json!({"text": text, "family": it.family}), detail: format!("declaration bytes {}..{}, syntax diagnostics {:?}", lo, hi, syn) });
                    }
                }
            }
            out
        })
        .collect();
    let mut fails = fails;
    fails.extend(syn_fails);
    let st = stats.lock().unwrap().clone();
    let missing_rules: Vec<String> = refsem::ALL_RULES.iter().map(|r| format!("{:?}", r)).filter(|r| !st.single_fault.contains_key(r)).collect();
    rep.states = items.len() as u64;
    rep.transitions = evals.load(Ordering::Relaxed) + syn_evals.load(Ordering::Relaxed);
    rep.evaluations = rep.transitions;
    rep.traces_validated = rep.transitions;
    rep.distinct_nontrivial = st.well_typed + st.single_fault.values().sum::<u64>();
    rep.rule = "programs: the well-typed family, every member of the expression/statement families (typed or not), all statements up to the token bound over fault pools (undeclared names, a type and a procedure used as variables, variables called, wrong argument counts), and declaration-level faults at two placements; each is classified by the reference checker: no violation -> no diagnostic at all; exactly one violation -> >=1 diagnostic of that rule inside the construct's byte span and none of any other rule; more -> skipped and counted; x layouts/comment placements; published diagnostics equal errors() converted by the LSP text model; distinct_nontrivial = well-typed + single-fault programs".into();
    rep.bounds = json!({"programs": items.len(), "well_typed": st.well_typed, "single_fault_by_rule": st.single_fault, "skipped_multi_fault": st.skipped_multi_fault, "syntax_fault_cases": syn_evals.load(Ordering::Relaxed), "rules_without_single_fault_program": missing_rules});
    rep.sample(json!({"text": "proc main() { var i: int; i := zz; }", "expected": "UndefinedVariable on zz only"}));
    rep.assumptions = vec!["reference checker refsem.rs (independent implementation of the SPL declaration/type rules, name equivalence by type-expression identity)".into(), "a unary minus on a non-integer operand is reported with the message kind of the arithmetic operators".into()];
    rep.failures = fails;
    rep
}

pub fn replay(case: &Value) -> Vec<Failure> {
    let text = case["text"].as_str().unwrap_or("").to_string();
    let t2 = text.clone();
    match guarded(move || AnalyzedSource::new(t2).errors()) {
        Err(p) => vec![Failure { key: "diag:panic".into(), case: case.clone(), detail: p }],
        Ok(errs) => {
            println!("diagnostics of the stored text: {:?}", errs);
            let mut out: Vec<Failure> = errs
                .iter()
                .filter(|e| e.0.start > e.0.end || e.0.end > text.len())
                .map(|e| Failure { key: "diag:range-outside-document".into(), case: case.clone(), detail: format!("{:?}", e) })
                .collect();
            // the stored expectation of the reference checker
            let exp = &case["expected"];
            if exp["no_diagnostic"] == json!(true) && !errs.is_empty() {
                out.push(Failure { key: "diag:spurious-on-valid-program".into(), case: case.clone(), detail: format!("{:?}", errs) });
            }
            if let Some(rule) = exp["only_rule"].as_str() {
                let (s, e) = (exp["inside_bytes"][0].as_u64().unwrap_or(0) as usize, exp["inside_bytes"][1].as_u64().unwrap_or(0) as usize);
                let name = |x: &spl_frontend::error::SplError| rule_of(&x.1).map(|r| format!("{:?}", r)).unwrap_or_else(|| "syntax".into());
                if !errs.iter().any(|x| name(x) == rule && x.0.start >= s && x.0.end <= e) {
                    out.push(Failure { key: format!("diag:{}:missing-or-misplaced", rule), case: case.clone(), detail: format!("expected inside bytes {}..{}, got {:?}", s, e, errs) });
                }
                if let Some(o) = errs.iter().find(|x| name(x) != rule) {
                    out.push(Failure { key: format!("diag:{}:extra", rule), case: case.clone(), detail: format!("{:?}", o) });
                }
            }
            out
        }
    }
}
