//! C17 — folding ranges match procedure extents.  E-INPUT.
use crate::checks::c04::{variants, Variant};
use crate::common::*;
use crate::gen::ast::*;
use crate::gen::layout::*;
use crate::lsptext;
use crate::progs;
use crate::session::*;
use crate::soup::*;
use rayon::prelude::*;
use serde_json::{json, Value};
use std::sync::atomic::{AtomicU64, Ordering};

/// comment texts with characters that are NOT line terminators in LSP (only LF, CR LF and CR
/// are) although Unicode calls them line / paragraph separators, and with a character outside
/// the BMP
pub fn comment_text(g: usize) -> String {
    match g % 3 {
        0 => format!(" c{}", g),
        1 => format!(" c{}\u{2028}x\u{85}y\u{2029}z", g),
        _ => format!(" \u{1f600}{}\u{b}\u{c}", g),
    }
}

fn fold_request(text: &str) -> Result<Vec<(u64, u64)>, String> {
    let mut s = Session::new(false);
    s.open(URI, text);
    let id = s.request("textDocument/foldingRange", doc_request_params("textDocument/foldingRange", URI));
    let o = s.run();
    if let Some(e) = o.error.clone().or(o.frame_error.clone()) {
        return Err(e);
    }
    let r = o.responses();
    let resp = r.get(&id).ok_or("no response")?;
    let arr = resp.get("result").and_then(|v| v.as_array()).ok_or(format!("no result array: {}", resp))?;
    arr.iter()
        .map(|f| {
            Ok((
                f["startLine"].as_u64().ok_or("startLine")?,
                f["endLine"].as_u64().ok_or("endLine")?,
            ))
        })
        .collect()
}

pub fn well_formed(text: &str, folds: &[(u64, u64)]) -> Result<(), String> {
    let nlines = lsptext::lines(text).len() as u64;
    let mut prev_end: Option<u64> = None;
    for (s, e) in folds {
        if s > e {
            return Err(format!("start {} > end {}", s, e));
        }
        if *e >= nlines {
            return Err(format!("end line {} outside the document ({} lines)", e, nlines));
        }
        if let Some(p) = prev_end {
            if *s < p {
                return Err(format!("ranges overlap or are out of order: start {} < previous end {}", s, p));
            }
        }
        prev_end = Some(*e);
    }
    Ok(())
}

pub fn expected_folds(p: &RProgram, pr: &Printed, r: &Rendered) -> Vec<(u64, u64)> {
    let mut exp = vec![];
    let ix = lsptext::LineIndex::new(&r.text);
    for (di, d) in p.decls.iter().enumerate() {
        if let RDecl::Proc { .. } = d {
            let (a, b) = pr.decl_spans[di];
            let start = ix.position(r.tok_ranges[a].0).0 as u64;
            let end = ix.position(r.tok_ranges[b - 1].0).0 as u64;
            exp.push((start, end));
        }
    }
    exp
}

pub fn eval_program(p: &RProgram, pr: &Printed, r: &Rendered) -> Result<(), (String, String)> {
    let folds = fold_request(&r.text).map_err(|e| ("error".to_string(), e))?;
    let exp = expected_folds(p, pr, r);
    if folds != exp {
        return Err(("extent".into(), format!("got {:?}, expected {:?}", folds, exp)));
    }
    well_formed(&r.text, &folds).map_err(|e| ("ill-formed".to_string(), e))
}

/// One session, several versions of the same document: open, fold, replace the whole text by
/// another layout, fold, close, re-open in a third layout, fold. Every answer must describe
/// the text the server holds at that moment (no state may survive between requests).
pub fn eval_multi_step(p: &RProgram, pr: &Printed) -> Result<(), (String, String)> {
    let l1 = render(&pr.toks, Layout::Lines, &[], &comment_text);
    let l2 = render(&pr.toks, Layout::Minimal, &[], &comment_text);
    let starts: Vec<usize> = pr.decl_spans.iter().map(|s| s.0).collect();
    let l3 = render(&pr.toks, Layout::Pretty, &starts, &comment_text);
    let mut s = Session::new(false);
    let params = doc_request_params("textDocument/foldingRange", URI);
    s.open(URI, &l1.text);
    let a = s.request("textDocument/foldingRange", params.clone());
    s.change(URI, json!([{"text": l2.text}]));
    let b = s.request("textDocument/foldingRange", params.clone());
    s.close(URI);
    s.open(URI, &l3.text);
    let c = s.request("textDocument/foldingRange", params);
    let o = s.run();
    if let Some(e) = o.error.clone().or(o.frame_error.clone()) {
        return Err(("error".into(), e));
    }
    let r = o.responses();
    for (id, rend, step) in [(a, &l1, "after didOpen"), (b, &l2, "after a full-text didChange"), (c, &l3, "after close and re-open")] {
        let got: Vec<(u64, u64)> = r
            .get(&id)
            .and_then(|x| x.get("result"))
            .and_then(|x| x.as_array())
            .map(|x| x.iter().map(|f| (f["startLine"].as_u64().unwrap_or(u64::MAX), f["endLine"].as_u64().unwrap_or(u64::MAX))).collect())
            .unwrap_or_default();
        let want = expected_folds(p, pr, rend);
        if got != want {
            return Err(("stale-or-wrong-after-document-update".into(), format!("{}: got {:?}, expected {:?}", step, got, want)));
        }
    }
    Ok(())
}

pub fn run(tier: Tier) -> Report {
    let mut rep = Report::new("C17", tier);
    let items = progs::syntactic_family(tier);
    let evals = AtomicU64::new(0);
    let step = tier.pick(3, 1);
    let mut fails: Vec<Failure> = items
        .par_iter()
        .enumerate()
        .filter(|(i, it)| i % step == 0 || progs::always_included(it.family))
        .flat_map_iter(|(i, it)| {
            let pr = print_program(&it.program);
            let mut out = vec![];
            evals.fetch_add(1, Ordering::Relaxed);
            if let Err((kind, detail)) = eval_multi_step(&it.program, &pr) {
                out.push(Failure { key: format!("fold:{}", kind), case: json!({"text": render_plain(&pr.toks, Layout::Lines).text, "family": it.family, "multi_step": true}), detail });
            }
            let mut vs: Vec<(Variant, bool)> = variants(&pr, it.focus_decl, i % 97 == 0).into_iter().map(|v| (v, false)).collect();
            // documents that end with the last byte of the program, in every line-end convention
            for l in [Layout::Cr, Layout::Crlf, Layout::Lines] {
                vs.push((Variant { layout: l, gaps: vec![] }, true));
            }
            for (v, is_tight) in vs {
                // single-gap comment variants only where they can matter for lines: all of them
                let r = render(&pr.toks, if v.gaps.len() == 1 { Layout::Lines } else { v.layout }, &v.gaps, &comment_text);
                let r = if is_tight { tight(r) } else { r };
                evals.fetch_add(1, Ordering::Relaxed);
                if let Err((kind, detail)) = eval_program(&it.program, &pr, &r) {
                    if out.len() < 2 {
                        out.push(Failure {
                            key: format!("fold:{}:{:?}", kind, v.layout),
                            case: json!({"text": r.text, "family": it.family, "expected": expected_folds(&it.program, &pr, &r)}),
                            detail,
                        });
                    }
                }
            }
            out
        })
        .collect();
    // programs far beyond the small bounds: 2 500 / 9 000 statements (70 KB / 250 KB; in the
    // token-per-line layouts more than 65 536 lines), every line-end convention
    {
        let sizes: &[usize] = if tier == Tier::Quick { &[2500] } else { &[2500, 9000] };
        let hf: Vec<Failure> = sizes
            .par_iter()
            .flat_map_iter(|n| {
                let prog = crate::progs::scale_program(40, 40, *n);
                let pr = print_program(&prog);
                let mut out = vec![];
                for layout in [Layout::Lines, Layout::Crlf, Layout::Cr, Layout::Pretty, Layout::Minimal] {
                    let r = render(&pr.toks, layout, &[], &comment_text);
                    evals.fetch_add(1, Ordering::Relaxed);
                    if let Err((kind, detail)) = eval_program(&prog, &pr, &r) {
                        out.push(Failure { key: format!("fold:{}:{:?}:huge-document", kind, layout), case: json!({"huge": {"statements": n}, "layout": format!("{:?}", layout)}), detail: truncate(&detail, 600) });
                    }
                }
                out
            })
            .collect();
        fails.extend(hf);
    }
    // many procedures (more than any small table): 40, with and without doc comments
    {
        let decls: Vec<RDecl> = (0..40)
            .map(|k| RDecl::Proc { name: if k == 39 { "main".into() } else { format!("p{}", k) }, params: vec![], vars: vec![], body: if k % 3 == 0 { vec![] } else { vec![RStmt::Empty; k % 3] } })
            .collect();
        let prog = RProgram { decls };
        let pr = print_program(&prog);
        let starts: Vec<usize> = pr.decl_spans.iter().map(|s| s.0).collect();
        for (layout, gaps) in [(Layout::Pretty, vec![]), (Layout::Pretty, starts.clone()), (Layout::Lines, starts), (Layout::Minimal, vec![]), (Layout::Crlf, vec![]), (Layout::Cr, vec![])] {
            let r = render(&pr.toks, layout, &gaps, &comment_text);
            evals.fetch_add(1, Ordering::Relaxed);
            if let Err((kind, detail)) = eval_program(&prog, &pr, &r) {
                fails.push(Failure { key: format!("fold:{}:{:?}:many-procedures", kind, layout), case: json!({"text": r.text, "expected": expected_folds(&prog, &pr, &r)}), detail });
            }
        }
    }
    let n_valid = evals.load(Ordering::Relaxed);
    // well-formedness on arbitrary documents
    let toks = Strings::new(SIGMA_TOK, tier.pick(3, 4));
    let wf: Vec<Failure> = (0..toks.count())
        .into_par_iter()
        .filter_map(|i| {
            let t = toks.get_joined(i, if i % 2 == 0 { " " } else { "\n" });
            evals.fetch_add(1, Ordering::Relaxed);
            match fold_request(&t) {
                Err(e) => Some(Failure { key: "fold:error".into(), case: json!({"text": t}), detail: e }),
                Ok(f) => well_formed(&t, &f).err().map(|e| Failure {
                    key: "fold:ill-formed-on-arbitrary-document".into(),
                    case: json!({"text": t}),
                    detail: format!("{} {:?}", e, f),
                }),
            }
        })
        .collect();
    fails.extend(wf);
    rep.states = evals.load(Ordering::Relaxed);
    rep.transitions = rep.states;
    rep.evaluations = rep.states;
    rep.traces_validated = rep.states;
    rep.distinct_nontrivial = n_valid;
    rep.rule = "exactness: generated syntactically valid programs x 7 layouts, plus per program one session that opens, replaces (full text), closes and re-opens the document in three layouts with a fold request after each step, x a comment line in every gap of the focus declaration (token-per-line layout, so every gap is a line) x comments everywhere; well-formedness: every sequence of <= k tokens of the token alphabet, blank- or newline-separated; distinct_nontrivial = texts with an exact expected fold list".into();
    rep.bounds = json!({"programs": items.len(), "token_soup_max": tier.pick(3, 4)});
    rep.sample(json!({"text": "// doc\nproc\nmain\n(\n)\n{\n}\n", "expected": [[1, 6]]}));
    rep.assumptions = vec!["line numbers from the independent LSP text model lsptext".into()];
    rep.failures = fails;
    rep
}

pub fn replay(case: &Value) -> Vec<Failure> {
    if let Some(n) = case["huge"]["statements"].as_u64() {
        // a generated large program: re-generated, not stored
        let prog = crate::progs::scale_program(40, 40, n as usize);
        let pr = print_program(&prog);
        let layout = layout_by_name(case["layout"].as_str().unwrap_or("Lines")).unwrap_or(Layout::Lines);
        let r = render(&pr.toks, layout, &[], &comment_text);
        return match eval_program(&prog, &pr, &r) {
            Ok(()) => vec![],
            Err((k, d)) => vec![Failure { key: format!("fold:{}:huge-document", k), case: case.clone(), detail: truncate(&d, 600) }],
        };
    }
    let t = case["text"].as_str().unwrap_or("");
    match fold_request(t) {
        Err(e) => vec![Failure { key: "fold:error".into(), case: case.clone(), detail: e }],
        Ok(f) => {
            let mut out = vec![];
            if let Err(e) = well_formed(t, &f) {
                out.push(Failure { key: "fold:ill-formed".into(), case: case.clone(), detail: e });
            }
            // exactness from an independent scan: one fold per `proc` keyword of valid text
            if let Some(exp) = case.get("expected") {
                if serde_json::to_value(&f).unwrap() != *exp {
                    out.push(Failure { key: "fold:extent".into(), case: case.clone(), detail: format!("got {:?} expected {}", f, exp) });
                }
            }
            out
        }
    }
}
