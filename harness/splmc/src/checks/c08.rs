//! C08 — the server's copy of a document always equals the client's, positions included.
//! E-HIST: all didChange notifications over a bounded text/position/replacement alphabet against
//! the real document broker, the LSP text model `lsptext` as reference; BFS over histories;
//! position round trip through prepareRename / hover on the real server loop.
use crate::common::*;
use crate::lsptext::{self, Change};
use crate::session::{self, Session, URI};
use crate::soup::*;
use lsp_types::{Position, Range, TextDocumentContentChangeEvent, Url};
use lspcore::document::{broker, DocumentRequest};
use rayon::prelude::*;
use serde_json::{json, Value};
use std::collections::HashSet;
use std::sync::atomic::{AtomicU64, Ordering};
use vtokio::sync::{mpsc, oneshot};

/// (U+2028 LINE SEPARATOR is an ordinary 3-byte character for LSP: only LF, CR LF and CR end a line)
pub const ALPHA: &[&str] = &["a", "\u{e9}", "\u{2028}", "\u{1f600}", "\r", "\n", ";"];
pub const REPLS: &[&str] = &["", "a", "\u{1f600}", "\n", "\r\n"];

/// `range_length`: the deprecated LSP field (length of the replaced range in UTF-16 code
/// units); clients may still send it, the range alone is authoritative
fn to_event(c: &Change, range_length: Option<u32>) -> TextDocumentContentChangeEvent {
    TextDocumentContentChangeEvent {
        range: c.range.map(|(l1, c1, l2, c2)| Range {
            start: Position { line: l1, character: c1 },
            end: Position { line: l2, character: c2 },
        }),
        range_length,
        text: c.text.clone(),
    }
}

/// Opens `initial` under `uri` in a fresh real broker, sends each batch as one Change request
/// and returns the server's text after every batch (None = document unknown to the server).
pub fn server_texts(initial: &str, batches: &[Vec<Change>]) -> Result<Vec<Option<String>>, String> {
    let uri = Url::parse(URI).unwrap();
    // in every second history all ranged events carry the (correct) rangeLength of the client's
    // text (one policy per history: identical events of one notification stay identical)
    let mut cur = initial.to_string();
    let n = initial.len() + batches.iter().map(|b| b.len()).sum::<usize>() + batches.first().and_then(|b| b.first()).map(|c| c.text.len()).unwrap_or(0);
    let batches: Vec<Vec<TextDocumentContentChangeEvent>> = batches
        .iter()
        .map(|b| {
            b.iter()
                .map(|c| {
                    let len = match c.range {
                        Some((l1, c1, l2, c2)) if n % 2 == 0 => match (lsptext::offset(&cur, l1, c1), lsptext::offset(&cur, l2, c2)) {
                            (Some(a), Some(b)) if a <= b => Some(lsptext::utf16_len(&cur[a..b])),
                            _ => None,
                        },
                        _ => None,
                    };
                    if let Some(t) = lsptext::apply(&cur, c) {
                        cur = t;
                    }
                    to_event(c, len)
                })
                .collect()
        })
        .collect();
    let initial = initial.to_string();
    guarded(move || {
        vtokio::verif::set_controlled(false);
        let (doctx, docrx) = mpsc::channel::<DocumentRequest>(32);
        let (iotx, mut iorx) = mpsc::channel(32);
        let b = broker(docrx, iotx, false);
        let driver = async move {
            let mut out = vec![];
            doctx.send(DocumentRequest::Open(uri.clone(), initial)).await.map_err(|_| "broker gone")?;
            for batch in batches {
                doctx.send(DocumentRequest::Change(uri.clone(), batch)).await.map_err(|_| "broker gone")?;
                let (tx, rx) = oneshot::channel();
                doctx.send(DocumentRequest::GetInfo(uri.clone(), tx)).await.map_err(|_| "broker gone")?;
                let info = rx.await.map_err(|_| "broker dropped the request")?;
                out.push(info.map(|d| d.text));
            }
            drop(doctx);
            Ok::<_, &'static str>(out)
        };
        let drain = async move { while iorx.recv().await.is_some() {} };
        let (_, r, _) = futures::executor::block_on(futures::future::join3(b, driver, drain));
        r.map_err(|e| e.to_string())
    })
    .and_then(|r| r)
}

/// positions worth probing on `text`: every UTF-16 column of every line that is not inside a
/// surrogate pair, one and two past the line end, one line past the end
pub fn probe_positions(text: &str) -> Vec<(u32, u32)> {
    let ls = lsptext::lines(text);
    let mut out = vec![];
    for (li, (s, e)) in ls.iter().enumerate() {
        let n = lsptext::utf16_len(&text[*s..*e]);
        for c in 0..=n + 2 {
            if lsptext::offset(text, li as u32, c).is_some() {
                out.push((li as u32, c));
            }
        }
    }
    out.push((ls.len() as u32, 0));
    out.push((ls.len() as u32 + 1, 1));
    out
}

pub fn all_changes(text: &str, repls: &[&str]) -> Vec<Change> {
    let ps = probe_positions(text);
    let mut out = vec![];
    for (i, a) in ps.iter().enumerate() {
        for b in &ps[i..] {
            // the model orders positions; equal offsets with different spellings are kept
            for r in repls {
                out.push(Change { range: Some((a.0, a.1, b.0, b.1)), text: r.to_string() });
            }
        }
    }
    for r in ["", "x\u{1f600}\r\ny"] {
        out.push(Change { range: None, text: r.to_string() });
    }
    out
}

/// position-model feature a change exercises (finding key vocabulary)
pub fn feature(text: &str, batch: &[Change]) -> String {
    let mut cur = text.to_string();
    let mut feats: Vec<&str> = vec![];
    for c in batch {
        match c.range {
            None => feats.push("range-less-full-replacement"),
            Some((l1, c1, l2, c2)) => {
                let ls = lsptext::lines(&cur);
                for (l, ch) in [(l1, c1), (l2, c2)] {
                    if l as usize >= ls.len() {
                        feats.push("line-past-end");
                        continue;
                    }
                    let (s, e) = ls[l as usize];
                    let line = &cur[s..e];
                    if ch > lsptext::utf16_len(line) {
                        feats.push("column-overshoot");
                    }
                    // astral character before the column on this line
                    let mut col = 0;
                    for chx in line.chars() {
                        if col >= ch {
                            break;
                        }
                        if chx.len_utf16() == 2 {
                            feats.push("astral-column");
                        }
                        col += chx.len_utf16() as u32;
                    }
                }
                // lone CR anywhere before the end position
                let b = cur.as_bytes();
                for i in 0..b.len() {
                    if b[i] == b'\r' && b.get(i + 1) != Some(&b'\n') {
                        feats.push("lone-CR-line-end");
                        break;
                    }
                }
            }
        }
        if let Some(n) = lsptext::apply(&cur, c) {
            cur = n;
        }
    }
    feats.sort();
    feats.dedup();
    if feats.is_empty() {
        "plain".into()
    } else {
        feats.join("+")
    }
}

fn change_json(c: &Change) -> Value {
    json!({"range": c.range.map(|r| vec![r.0, r.1, r.2, r.3]), "text": c.text})
}

pub fn eval(initial: &str, batches: &[Vec<Change>]) -> Option<(String, String)> {
    // reference
    let mut model = vec![];
    let mut cur = initial.to_string();
    for b in batches {
        for c in b {
            cur = lsptext::apply(&cur, c)?; // undefined position: not a case
        }
        model.push(cur.clone());
    }
    match server_texts(initial, batches) {
        Err(e) => Some(("error".into(), e)),
        Ok(server) => {
            for (i, (s, m)) in server.iter().zip(&model).enumerate() {
                if s.as_deref() != Some(m.as_str()) {
                    return Some((
                        feature(if i == 0 { initial } else { &model[i - 1] }, &batches[i]),
                        format!("after notification {}: server text {:?}, client text {:?}", i, s, m),
                    ));
                }
            }
            None
        }
    }
}

/// More documents than any small table: `n` documents are opened in a real broker, each is
/// changed, and the broker's text of each equals the client's.
pub fn many_documents(n: usize) -> Option<(String, String)> {
    let r = guarded(move || {
        vtokio::verif::set_controlled(false);
        let (doctx, docrx) = mpsc::channel::<DocumentRequest>(32);
        let (iotx, mut iorx) = mpsc::channel(32);
        let b = broker(docrx, iotx, false);
        let driver = async move {
            let uri = |k: usize| Url::parse(&format!("file:///many{}.spl", k)).unwrap();
            for k in 0..n {
                doctx.send(DocumentRequest::Open(uri(k), format!("proc p{}() {{}}\n", k))).await.map_err(|_| "broker gone".to_string())?;
            }
            for k in 0..n {
                let ev = TextDocumentContentChangeEvent { range: Some(Range { start: Position { line: 0, character: 0 }, end: Position { line: 0, character: 0 } }), range_length: None, text: format!("// {}\n", k) };
                doctx.send(DocumentRequest::Change(uri(k), vec![ev])).await.map_err(|_| "broker gone".to_string())?;
            }
            let mut bad = None;
            for k in 0..n {
                let (tx, rx) = oneshot::channel();
                doctx.send(DocumentRequest::GetInfo(uri(k), tx)).await.map_err(|_| "broker gone".to_string())?;
                let info = rx.await.map_err(|_| "broker dropped the request".to_string())?;
                let want = format!("// {}\nproc p{}() {{}}\n", k, k);
                let got = info.map(|d| d.text);
                if got.as_deref() != Some(want.as_str()) && bad.is_none() {
                    bad = Some(format!("document {} of {}: server text {:?}, client text {:?}", k, n, got, want));
                }
            }
            drop(doctx);
            Ok::<_, String>(bad)
        };
        let drain = async move { while iorx.recv().await.is_some() {} };
        let (_, r, _) = futures::executor::block_on(futures::future::join3(b, driver, drain));
        r
    });
    match r {
        Err(p) => Some(("error".into(), p)),
        Ok(Err(e)) => Some(("error".into(), e)),
        Ok(Ok(Some(d))) => Some(("many-documents".into(), d)),
        Ok(Ok(None)) => None,
    }
}

/// a line of more than 65 536 UTF-16 units behind an astral character, then 300 short lines
pub fn long_document() -> String {
    format!("{}\u{1f600}{}\n{}", "a".repeat(300), "b".repeat(70_000), "x\u{e9}\n".repeat(300))
}

/// round trip: ranges the server reports for identifier tokens, sent back as positions,
/// address the same token
pub fn round_trip(text: &str) -> Vec<(String, String)> {
    let toks = crate::reflex::lex(text);
    let idents: Vec<_> = toks
        .iter()
        .filter(|t| matches!(&t.kind, crate::reflex::RKind::Ident(n) if n != "int"))
        .collect();
    if idents.is_empty() {
        return vec![];
    }
    let mut s = Session::new(false);
    s.open(URI, text);
    let mut ids = vec![];
    for t in &idents {
        // first and last column of the identifier
        for off in [t.start, t.end - 1] {
            let (l, c) = lsptext::position(text, off);
            ids.push((s.pos_request("textDocument/prepareRename", URI, l, c), *t));
        }
    }
    let o = s.run();
    if let Some(e) = o.error.clone().or(o.frame_error.clone()) {
        return vec![("error".into(), e)];
    }
    let resp = o.responses();
    let mut out = vec![];
    for (id, t) in ids {
        let want = {
            let (l1, c1) = lsptext::position(text, t.start);
            let (l2, c2) = lsptext::position(text, t.end);
            json!({"start": {"line": l1, "character": c1}, "end": {"line": l2, "character": c2}})
        };
        let got = resp.get(&id).and_then(|r| r.get("result")).cloned().unwrap_or(Value::Null);
        if got != want {
            let before = &text[..t.start];
            let feat = if before.rsplit(['\n', '\r']).next().unwrap_or("").chars().any(|c| c.len_utf16() == 2) {
                "astral-column"
            } else if before.bytes().enumerate().any(|(i, b)| b == b'\r' && before.as_bytes().get(i + 1) != Some(&b'\n') && i + 1 < text.len()) {
                "lone-CR-line-end"
            } else if !before.is_ascii() {
                "non-ascii"
            } else {
                "plain"
            };
            out.push((format!("round-trip:{}", feat), format!("token {:?}: prepareRename answered {}, the token's range is {}", t, got, want)));
        }
    }
    out
}

pub fn run(tier: Tier) -> Report {
    let mut rep = Report::new("C08", tier);
    let evals = AtomicU64::new(0);
    let nontrivial = AtomicU64::new(0);
    let texts = Strings::new(ALPHA, tier.pick(3, 4));
    // (1) single notifications with one event
    let mut fails: Vec<Failure> = (0..texts.count())
        .into_par_iter()
        .flat_map_iter(|i| {
            let t = texts.get(i);
            let mut out = vec![];
            let mut seen_keys: HashSet<String> = HashSet::new();
            for c in all_changes(&t, REPLS) {
                evals.fetch_add(1, Ordering::Relaxed);
                if lsptext::apply(&t, &c).map(|n| n != t).unwrap_or(false) {
                    nontrivial.fetch_add(1, Ordering::Relaxed);
                }
                if let Some((k, d)) = eval(&t, &[vec![c.clone()]]) {
                    if seen_keys.insert(k.clone()) || out.len() < 4 {
                        out.push(Failure {
                            key: format!("sync:{}", k),
                            case: json!({"initial": t, "batches": [[change_json(&c)]]}),
                            detail: d,
                        });
                    }
                }
            }
            out
        })
        .collect();
    // (1b) a long document: a line of more than 65 536 UTF-16 units (with an astral character
    // in front) and more than 256 lines; every ordered pair of positions around the 8 and 16
    // bit boundaries of columns and lines
    {
        let long = long_document();
        let cols: Vec<u32> = vec![0, 254, 255, 256, 257, 300, 301, 302, 303, 65_534, 65_535, 65_536, 65_537, 70_301, 70_302, 70_303, 99_999];
        let mut ps: Vec<(u32, u32)> = cols.iter().map(|c| (0u32, *c)).collect();
        for l in [1u32, 254, 255, 256, 257, 299, 300, 301, 302] {
            for c in [0u32, 1, 2, 3] {
                ps.push((l, c));
            }
        }
        let pairs: Vec<((u32, u32), (u32, u32))> = ps.iter().enumerate().flat_map(|(i, a)| ps[i..].iter().map(move |b| (*a, *b))).collect();
        let f1b: Vec<Failure> = pairs
            .par_iter()
            .flat_map_iter(|(a, b)| {
                let mut out = vec![];
                for r in ["", "\u{1f600}\n"] {
                    let c = Change { range: Some((a.0, a.1, b.0, b.1)), text: r.to_string() };
                    evals.fetch_add(1, Ordering::Relaxed);
                    nontrivial.fetch_add(1, Ordering::Relaxed);
                    if let Some((k, d)) = eval(&long, &[vec![c.clone()]]) {
                        out.push(Failure { key: format!("sync:{}:long-document", k), case: json!({"long_document": true, "batches": [[change_json(&c)]]}), detail: truncate(&d, 400) });
                    }
                }
                out
            })
            .collect();
        let mut seen: HashSet<String> = HashSet::new();
        fails.extend(f1b.into_iter().filter(|f| seen.insert(f.key.clone())));
    }
    // (1c) beyond the small bounds: 40 / 300 documents at once in the broker; a burst of
    // 100 / 500 didChange notifications through the whole server loop (no request in between)
    {
        let n_docs = tier.pick(40, 300);
        evals.fetch_add(2, Ordering::Relaxed);
        if let Some((k, d)) = many_documents(n_docs) {
            fails.push(Failure { key: format!("sync:{}", k), case: json!({"many_documents": n_docs}), detail: d });
        }
        let n = tier.pick(100, 500);
        if let Some((k, d)) = crate::checks::c20::eval_change_burst(n, false) {
            fails.push(Failure { key: format!("sync:burst-through-the-server-loop:{}", k), case: json!({"change_burst": n}), detail: d });
        }
    }
    // (2) notifications with two and three events (texts one size smaller)
    let small = Strings::new(ALPHA, tier.pick(2, 3));
    let f2: Vec<Failure> = (0..small.count())
        .into_par_iter()
        .flat_map_iter(|i| {
            let t = small.get(i);
            let mut out = vec![];
            let mut seen_keys: HashSet<String> = HashSet::new();
            let c1s = all_changes(&t, &["", "a\n", "\u{1f600}"]);
            for c1 in &c1s {
                let Some(t1) = lsptext::apply(&t, c1) else { continue };
                for c2 in all_changes(&t1, &["", "\u{e9}"]) {
                    let mut batch = vec![c1.clone(), c2.clone()];
                    for n in 2..=3 {
                        if n == 3 {
                            batch.push(Change { range: Some((0, 1, 0, 2)), text: ";".into() });
                        }
                        evals.fetch_add(1, Ordering::Relaxed);
                        nontrivial.fetch_add(1, Ordering::Relaxed);
                        if let Some((k, d)) = eval(&t, &[batch.clone()]) {
                            if seen_keys.insert(k.clone()) || out.len() < 4 {
                                out.push(Failure {
                                    key: format!("sync-batch:{}", k),
                                    case: json!({"initial": t, "batches": [batch.iter().map(change_json).collect::<Vec<_>>()]}),
                                    detail: d,
                                });
                            }
                        }
                    }
                }
            }
            out
        })
        .collect();
    fails.extend(f2);
    // (3) BFS over histories: state = (client text, server text); a diverged state is recorded, not expanded
    let depth = tier.pick(3, 4);
    let mut seen: HashSet<String> = HashSet::new();
    let mut frontier: Vec<(String, Vec<Vec<Change>>)> = vec![(String::new(), vec![])];
    seen.insert(String::new());
    let mut bfs_transitions = 0u64;
    let hist_repls = ["", "a", "\u{1f600}", "\n"];
    for _ in 0..depth {
        let res: Vec<(String, Vec<Vec<Change>>, Option<(String, String)>)> = frontier
            .par_iter()
            .flat_map_iter(|(t, h)| {
                let mut out = vec![];
                for c in all_changes(t, &hist_repls) {
                    let Some(n) = lsptext::apply(t, &c) else { continue };
                    if n.chars().count() > 3 {
                        continue;
                    }
                    let mut hh = h.clone();
                    hh.push(vec![c]);
                    let r = eval("", &hh);
                    out.push((n, hh, r));
                }
                out
            })
            .collect();
        let mut next = vec![];
        for (n, hh, r) in res {
            bfs_transitions += 1;
            match r {
                None => {
                    if seen.insert(n.clone()) {
                        next.push((n, hh));
                    }
                }
                Some((k, d)) => {
                    if fails.len() < MAX_KEPT_FAILURES {
                        fails.push(Failure {
                            key: format!("sync-history:{}", k),
                            case: json!({"initial": "", "batches": hh.iter().map(|b| b.iter().map(change_json).collect::<Vec<_>>()).collect::<Vec<_>>()}),
                            detail: d,
                        });
                    }
                }
            }
        }
        frontier = next;
    }
    // (4) round trip of reported ranges
    let rt_alpha: Vec<&str> = vec!["a", "bc", "\u{e9}", "\u{1f600}", "\n", "\r\n", "\r", " ", "// \u{1f600}\n", "1"];
    let rts = Strings::new(&rt_alpha, tier.pick(4, 5));
    let rt_evals = AtomicU64::new(0);
    let f4: Vec<Failure> = (0..rts.count())
        .into_par_iter()
        .flat_map_iter(|i| {
            let t = rts.get(i);
            rt_evals.fetch_add(1, Ordering::Relaxed);
            round_trip(&t)
                .into_iter()
                .take(2)
                .map(|(k, d)| Failure { key: k, case: json!({"round_trip_text": t}), detail: d })
                .collect::<Vec<_>>()
        })
        .collect();
    fails.extend(f4);

    rep.states = texts.count() + seen.len() as u64 + rts.count();
    rep.transitions = evals.load(Ordering::Relaxed) + bfs_transitions + rt_evals.load(Ordering::Relaxed);
    rep.evaluations = rep.transitions;
    rep.traces_validated = rep.transitions;
    rep.distinct_nontrivial = nontrivial.load(Ordering::Relaxed) + bfs_transitions;
    rep.rule = "initial texts: all strings over {a, e-acute, euro, U+1F600, CR, LF, ;} up to the length bound; change events: every ordered pair of probe positions (every UTF-16 column outside surrogate pairs, one and two past the line end, lines past the end) x 5 replacements, plus range-less full replacements; notifications with 1, 2 and 3 events; BFS over histories from the empty document; round trip of prepareRename ranges for every identifier of all strings over a 10-symbol alphabet; non-trivial = the event changes the client text".into();
    rep.bounds = json!({"alphabet": ALPHA, "replacements": REPLS, "max_len": tier.pick(3,4), "bfs_depth": depth, "bfs_states": seen.len(), "round_trip_texts": rts.count()});
    rep.sample(json!({"initial": "a\u{1f600}\n;", "batches": [[{"range": [0, 3, 1, 9], "text": "\r\n"}]]}));
    rep.assumptions = vec![
        "reference: lsptext.rs (LSP 3.17 position rules); positions between the two code units of a surrogate pair are excluded (undefined in LSP)".into(),
        "the broker is driven through its DocumentRequest channel (Open/Change/GetInfo), the same messages the server loop sends".into(),
    ];
    rep.failures = fails;
    rep
}

fn parse_change(v: &Value) -> Change {
    Change {
        range: v["range"].as_array().map(|a| {
            let g = |i: usize| a[i].as_u64().unwrap_or(0) as u32;
            (g(0), g(1), g(2), g(3))
        }),
        text: v["text"].as_str().unwrap_or("").to_string(),
    }
}

pub fn replay(case: &Value) -> Vec<Failure> {
    if let Some(t) = case.get("round_trip_text").and_then(|v| v.as_str()) {
        return round_trip(t).into_iter().map(|(k, d)| Failure { key: k, case: case.clone(), detail: d }).collect();
    }
    if let Some(n) = case["many_documents"].as_u64() {
        return many_documents(n as usize).map(|(k, d)| vec![Failure { key: format!("sync:{}", k), case: case.clone(), detail: d }]).unwrap_or_default();
    }
    if let Some(n) = case["change_burst"].as_u64() {
        return crate::checks::c20::eval_change_burst(n as usize, false).map(|(k, d)| vec![Failure { key: format!("sync:burst-through-the-server-loop:{}", k), case: case.clone(), detail: d }]).unwrap_or_default();
    }
    let long;
    let initial = if case["long_document"] == json!(true) {
        long = long_document();
        long.as_str()
    } else {
        case["initial"].as_str().unwrap_or("")
    };
    let batches: Vec<Vec<Change>> = case["batches"]
        .as_array()
        .map(|bs| bs.iter().map(|b| b.as_array().map(|cs| cs.iter().map(parse_change).collect()).unwrap_or_default()).collect())
        .unwrap_or_default();
    eval(initial, &batches)
        .map(|(k, d)| vec![Failure { key: format!("sync:{}", k), case: case.clone(), detail: d }])
        .unwrap_or_default()
}

#[allow(unused)]
fn _unused() {
    let _ = session::frame;
}
