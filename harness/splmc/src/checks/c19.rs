//! C19 — message framing is independent of how the byte stream is chunked.
//! Deviation bounding over "a read returns fewer bytes than available": 0 deviations (one read),
//! 1 (every two-way split), 2 (three-way splits), the 1-byte-per-read extreme; in process
//! through the real FramedRead<Stdin, LSCodec> inside run(), with Pending reads as scheduler
//! choices for the short session, and two-way splits against the release binary.
use crate::common::*;
use crate::procdrv;
use crate::sched::{self, EnvConfig};
use crate::session::*;
use rayon::prelude::*;
use serde_json::{json, Value};
use std::sync::atomic::{AtomicU64, Ordering};
use std::time::Duration;

pub struct Sess {
    pub name: &'static str,
    pub bytes: Vec<u8>,
}

fn session_of(name: &'static str, text: &str, extra: &[(&str, Value)]) -> Sess {
    let mut s = Session::new(true);
    s.open(URI, text);
    s.request("textDocument/foldingRange", doc_request_params("textDocument/foldingRange", URI));
    for (m, p) in extra {
        s.request(m, p.clone());
    }
    s.msgs.push(request(1000, "shutdown", Value::Null));
    // a request behind shutdown (answered with InvalidRequest): bytes that follow the shutdown
    // frame in the same read must not get lost
    s.msgs.push(request(1001, "textDocument/foldingRange", doc_request_params("textDocument/foldingRange", URI)));
    s.msgs.push(notification("exit", Value::Null));
    Sess { name, bytes: s.bytes() }
}

pub fn sessions(tier: Tier) -> Vec<Sess> {
    let pos = |l: u32, c: u32| json!({"textDocument": {"uri": URI}, "position": {"line": l, "character": c}});
    let mut v = vec![];
    // shortest possible well-formed session (2- and 3-digit body lengths)
    {
        let msgs = vec![
            request(1, "initialize", json!({"capabilities": {}})),
            notification("initialized", Value::Null),
            json!({"jsonrpc": "2.0", "method": "x"}), // 30-byte body: two-digit Content-Length
            request(2, "shutdown", Value::Null),
            request(3, "x/afterShutdown", Value::Null),
            notification("exit", Value::Null),
        ];
        v.push(Sess { name: "minimal", bytes: msgs.iter().flat_map(frame).collect() });
    }
    // frames with the optional Content-Type header, in both orders (splits inside a long header part)
    {
        let msgs = vec![
            request(1, "initialize", json!({"capabilities": {}})),
            notification("initialized", Value::Null),
            request(2, "x/unknown", json!({"k": "\u{e9}"})),
            request(3, "shutdown", Value::Null),
            notification("exit", Value::Null),
        ];
        let mut bytes = vec![];
        for (i, m) in msgs.iter().enumerate() {
            let body = serde_json::to_string(m).unwrap();
            let ct = "Content-Type: application/vscode-jsonrpc; charset=utf-8";
            let head = if i % 2 == 0 { format!("Content-Length: {}\r\n{}\r\n\r\n", body.len(), ct) } else { format!("{}\r\nContent-Length: {}\r\n\r\n", ct, body.len()) };
            bytes.extend_from_slice(head.as_bytes());
            bytes.extend_from_slice(body.as_bytes());
        }
        v.push(Sess { name: "content-type-header", bytes });
    }
    v.push(session_of("ascii", "proc main() {\n  var i: int;\n  i := 1;\n}\n", &[("textDocument/hover", pos(2, 2))]));
    // non-ASCII text: multi-byte characters in comments, an unknown character that is quoted
    // in a diagnostic, so that the server's own frames carry non-ASCII bodies
    v.push(session_of(
        "non-ascii",
        "// \u{e9}\u{20ac}\u{1f600} doc\nproc main() {\n  var i: int; // \u{1f600}\n  i := \u{e9};\n}\n",
        &[("textDocument/hover", pos(1, 6)), ("textDocument/semanticTokens/full", json!({"textDocument": {"uri": URI}}))],
    ));
    // four-digit body length
    let mid = format!("proc main() {{\n{}}}\n", "  printi(1); // \u{e9}\n".repeat(60));
    v.push(session_of("4-digit-length", &mid, &[]));
    // five-digit body length: one frame larger than FramedRead's initial 8 KiB buffer
    let big = format!("proc main() {{\n{}}}\n", "  printi(12345); // comment \u{20ac}\n".repeat(400));
    v.push(session_of("5-digit-length", &big, &[]));
    // six-digit body length: a frame above 64 KiB (and 128 KiB)
    let huge = format!("proc main() {{\n{}}}\n", "  printi(12345); // comment \u{20ac}\n".repeat(4200));
    v.push(session_of("6-digit-length", &huge, &[("textDocument/foldingRange", json!({"textDocument": {"uri": URI}}))]));
    // many small frames
    {
        let mut s = Session::new(true);
        s.open(URI, "proc main() { }\n");
        for i in 0..tier.pick(40, 200) {
            s.change(URI, json!([{"range": {"start": {"line": 0, "character": 14}, "end": {"line": 0, "character": 14}}, "text": format!("{};", if i % 2 == 0 { " " } else { "" })}]));
            s.request("textDocument/foldingRange", doc_request_params("textDocument/foldingRange", URI));
        }
        s.msgs.push(request(1000, "shutdown", Value::Null));
        s.msgs.push(notification("exit", Value::Null));
        v.push(Sess { name: "many-small-frames", bytes: s.bytes() });
    }
    v
}

/// One frame of the server above 2 MiB (the formatting answer for a 2.5 MB document, larger
/// than what one write call to a pipe or to tokio's stdout takes), followed by more traffic:
/// the output must stay well-framed and every request answered. Against the binary.
pub fn eval_huge_response() -> Option<(String, String)> {
    let text = format!("proc main() {{\n{}}}\n", "  printi(12345); // comment \u{20ac}\n".repeat(80_000));
    let mut s = Session::new(false);
    s.open(URI, &text);
    let a = s.request("textDocument/formatting", json!({"textDocument": {"uri": URI}, "options": {"tabSize": 4, "insertSpaces": true}}));
    let b = s.request("textDocument/foldingRange", json!({"textDocument": {"uri": URI}}));
    s.msgs.push(request(1000, "shutdown", Value::Null));
    s.msgs.push(notification("exit", Value::Null));
    let o = procdrv::run_chunks(&[s.bytes()], false, Duration::from_secs(120));
    if o.timed_out {
        return Some(("hang".into(), "no exit within 120 s".into()));
    }
    if let Some(e) = &o.frame_error {
        return Some(("malformed-output".into(), truncate(e, 300)));
    }
    let find = |id: i64| o.frames.iter().find(|f| f.get("method").is_none() && f["id"].as_i64() == Some(id));
    let new_len = find(a).and_then(|f| f["result"][0]["newText"].as_str()).map(|t| t.len()).unwrap_or(0);
    if new_len < 2 * 1024 * 1024 {
        return Some(("huge-frame-missing".into(), format!("formatting answer carries {} bytes of new text", new_len)));
    }
    if find(b).and_then(|f| f["result"].as_array()).map(|a| a.len()) != Some(1) || find(1000).is_none() {
        return Some(("requests-behind-the-huge-frame-unanswered".into(), format!("ids answered: {:?}", o.frames.iter().map(|f| f["id"].clone()).collect::<Vec<_>>())));
    }
    if o.exit_code != Some(0) {
        return Some(("exit-status".into(), format!("{:?}", o.exit_code)));
    }
    None
}

/// observable behaviour of one run: responses in order, notifications in order
fn observe(o: &Outcome) -> Result<(Vec<Value>, Vec<Value>), String> {
    if let Some(e) = o.error.clone().or(o.frame_error.clone()) {
        return Err(e);
    }
    let r: Vec<Value> = o.frames.iter().filter(|f| f.get("method").is_none()).cloned().collect();
    let n: Vec<Value> = o.frames.iter().filter(|f| f.get("method").is_some()).cloned().collect();
    Ok((r, n))
}

fn split_at(bytes: &[u8], cuts: &[usize]) -> Vec<Vec<u8>> {
    let mut out = vec![];
    let mut prev = 0;
    for c in cuts {
        out.push(bytes[prev..*c].to_vec());
        prev = *c;
    }
    out.push(bytes[prev..].to_vec());
    out.into_iter().filter(|c| !c.is_empty()).collect()
}

fn where_is(bytes: &[u8], cut: usize) -> &'static str {
    // position class of a cut: inside a header, inside a body, inside a multi-byte character
    let mut i = 0;
    while i < bytes.len() {
        let h = bytes[i..].windows(4).position(|w| w == b"\r\n\r\n").map(|p| i + p + 4).unwrap_or(bytes.len());
        let hdr = String::from_utf8_lossy(&bytes[i..h]).to_string();
        let len = hdr.split("\r\n").find_map(|l| l.strip_prefix("Content-Length:").and_then(|v| v.trim().parse::<usize>().ok())).unwrap_or(0);
        if cut == i {
            return "frame-boundary";
        }
        if cut < h {
            return "inside-header";
        }
        if cut < h + len {
            if bytes[cut] & 0xC0 == 0x80 {
                return "inside-multibyte-character";
            }
            return "inside-body";
        }
        i = h + len;
    }
    "frame-boundary"
}

pub fn run(tier: Tier) -> Report {
    let mut rep = Report::new("C19", tier);
    let sess = sessions(tier);
    let evals = AtomicU64::new(0);
    let mut fails: Vec<Failure> = vec![];
    let mut stats = vec![];
    let mut baselines = vec![];
    for s in &sess {
        let base = run_inproc(&s.bytes);
        let base_obs = match observe(&base) {
            Ok(o) => o,
            Err(e) => {
                fails.push(Failure { key: format!("framing:baseline-error:{}", s.name), case: json!({"session": s.name, "cuts": []}), detail: e });
                continue;
            }
        };
        baselines.push((s.name, base.raw.clone()));
        let n = s.bytes.len();
        // deviation 1: every two-way split (the 6-digit session: every 1021st byte, the 40
        // bytes around every frame boundary and around every multiple of 4 KiB)
        let sparse = s.name == "6-digit-length";
        let mut cut_sets: Vec<Vec<usize>> = if sparse {
            let mut c: std::collections::BTreeSet<usize> = (1..n).step_by(1021).collect();
            let mut i = 0;
            while i < n {
                let h = s.bytes[i..].windows(4).position(|w| w == b"\r\n\r\n").map(|p| i + p + 4).unwrap_or(n);
                let hdr = String::from_utf8_lossy(&s.bytes[i..h]).to_string();
                let len = hdr.split("\r\n").find_map(|l| l.strip_prefix("Content-Length:").and_then(|v| v.trim().parse::<usize>().ok())).unwrap_or(0);
                for b in [i, h, h + len] {
                    c.extend((b.saturating_sub(20)..b + 20).filter(|x| *x >= 1 && *x < n));
                }
                i = h + len;
                if len == 0 && h >= n {
                    break;
                }
            }
            for k in (4096..n).step_by(4096) {
                c.extend((k - 3..k + 3).filter(|x| *x < n));
            }
            c.into_iter().map(|x| vec![x]).collect()
        } else {
            (1..n).map(|c| vec![c]).collect()
        };
        // deviation 2: three-way splits - all pairs for the minimal session, all pairs within a
        // 64-byte window (every 3rd start) otherwise; thorough: window 256 / all for sessions < 1500 bytes
        let all_pairs = s.name == "minimal" || (tier == Tier::Thorough && n < 1100);
        // large sessions (10 ms per run): pairs in a narrow window at a coarser stride
        let large = n > 5000;
        let window = if large { tier.pick(8, 16) } else { tier.pick(64, 128) };
        let stride = if all_pairs { 1 } else if large { tier.pick(16, 4) } else { tier.pick(3, 1) };
        for a in (1..if sparse { 1 } else { n }).step_by(stride) {
            let hi = if all_pairs { n } else { (a + window).min(n) };
            for b in a + 1..hi {
                cut_sets.push(vec![a, b]);
            }
        }
        // extreme: one byte per read
        cut_sets.push((1..n).collect());
        let count = cut_sets.len();
        let f: Vec<Failure> = cut_sets
            .par_iter()
            .filter_map(|cuts| {
                evals.fetch_add(1, Ordering::Relaxed);
                let _g = watch("C19", || json!({"session": s.name, "cuts": if cuts.len() > 8 { vec![] } else { cuts.clone() }}).to_string());
                let o = run_inproc_chunks(&split_at(&s.bytes, cuts));
                let kind = match observe(&o) {
                    Err(e) => Some(("error", e)),
                    Ok(obs) => {
                        if obs.0 != base_obs.0 {
                            Some(("responses-differ", format!("{} responses, unsplit run has {}", obs.0.len(), base_obs.0.len())))
                        } else if obs.1 != base_obs.1 {
                            Some(("notifications-differ", String::new()))
                        } else {
                            None
                        }
                    }
                };
                kind.map(|(k, d)| Failure {
                    key: format!("framing:{}:{}", k, if cuts.len() > 8 { "one-byte-per-read" } else { where_is(&s.bytes, cuts[0]) }),
                    case: json!({"session": s.name, "cuts": if cuts.len() > 8 { vec![usize::MAX] } else { cuts.clone() }}),
                    detail: format!("session {} split at {:?}: {}", s.name, if cuts.len() > 8 { vec![] } else { cuts.clone() }, d),
                })
            })
            .collect();
        stats.push(json!({"session": s.name, "bytes": n, "segmentations": count, "failing": f.len(), "responses": base_obs.0.len(), "notifications": base_obs.1.len()}));
        fails.extend(f.into_iter().take(200));
    }
    // a frame of the server above 2 MiB
    {
        let t0 = std::time::Instant::now();
        evals.fetch_add(1, Ordering::Relaxed);
        let bad = eval_huge_response();
        stats.push(json!({"session": "huge-response (binary)", "seconds": t0.elapsed().as_secs_f64(), "failing": bad.is_some() as u32}));
        if let Some((k, d)) = bad {
            fails.push(Failure { key: format!("framing:binary:huge-response:{}", k), case: json!({"huge_response": true}), detail: d });
        }
    }
    // reads that find no data yet (Pending) as scheduler choices: minimal session, every
    // two-way split, all schedules with <= 1 preemption, a client task feeding the chunks
    let mut sched_execs = 0u64;
    if let Some(s) = sess.iter().find(|s| s.name == "minimal") {
        let base = run_inproc(&s.bytes);
        let res: Vec<(u64, Option<Failure>)> = (1..s.bytes.len())
            .into_par_iter()
            .step_by(tier.pick(2, 1))
            .map(|c| {
                let env = EnvConfig { chunks: split_at(&s.bytes, &[c]), feeder_task: true, clamp: None, stdout_cap: None, delay_bounded: false };
                let e = sched::explore(&env, tier.pick(1, 2));
                let mut f = None;
                if let Some((m, sc)) = &e.abort {
                    f = Some(Failure { key: "framing:schedule-abort".into(), case: json!({"session": "minimal", "cuts": [c], "schedule": sc}), detail: m.clone() });
                } else {
                    for (raw, (_, sc, err)) in &e.outcomes {
                        if err.is_some() || *raw != base.raw {
                            f = Some(Failure { key: "framing:output-depends-on-read-timing".into(), case: json!({"session": "minimal", "cuts": [c], "schedule": sc}), detail: format!("{:?}", err) });
                        }
                    }
                }
                (e.stats.executions, f)
            })
            .collect();
        for (n, f) in res {
            sched_execs += n;
            fails.extend(f);
        }
    }
    // conformance with the release binary: two-way splits, writes synchronised on an empty pipe
    let mut proc_runs = 0u64;
    for name in ["minimal", "non-ascii"] {
        let Some(s) = sess.iter().find(|s| s.name == name) else { continue };
        let Some((_, base_raw)) = baselines.iter().find(|(n, _)| *n == name) else { continue };
        let base_frames = parse_frames(base_raw).unwrap_or_default();
        let proj = |fr: &[Value]| -> (Vec<Value>, Vec<Value>) { (fr.iter().filter(|f| f.get("method").is_none()).cloned().collect(), fr.iter().filter(|f| f.get("method").is_some()).cloned().collect()) };
        // the binary announces its real capabilities in the initialize result: compare all but that
        let strip_init = |mut v: (Vec<Value>, Vec<Value>)| {
            if !v.0.is_empty() {
                v.0[0] = json!({"id": v.0[0]["id"]});
            }
            v
        };
        let want = strip_init(proj(&base_frames));
        let cuts: Vec<usize> = std::iter::once(0).chain((1..s.bytes.len()).step_by(tier.pick(if name == "minimal" { 1 } else { 5 }, 1))).collect();
        let f: Vec<Failure> = cuts
            .par_iter()
            .filter_map(|c| {
                let chunks = if *c == 0 { vec![s.bytes.clone()] } else { split_at(&s.bytes, &[*c]) };
                let o = procdrv::run_chunks(&chunks, true, Duration::from_secs(10));
                let bad = if o.timed_out {
                    Some("hang".to_string())
                } else if let Some(e) = &o.frame_error {
                    Some(format!("malformed output: {}", e))
                } else if strip_init(proj(&o.frames)) != want {
                    Some(format!("binary answered {} frames, in-process run {}", o.frames.len(), base_frames.len()))
                } else if o.exit_code != Some(0) {
                    Some(format!("exit status {:?}", o.exit_code))
                } else {
                    None
                };
                bad.map(|d| Failure { key: format!("framing:binary:{}", where_is(&s.bytes, *c)), case: json!({"session": name, "cuts": [c], "mode": "process"}), detail: d })
            })
            .collect();
        proc_runs += cuts.len() as u64;
        fails.extend(f.into_iter().take(50));
    }
    rep.states = sess.len() as u64;
    rep.transitions = evals.load(Ordering::Relaxed) + sched_execs + proc_runs;
    rep.evaluations = rep.transitions;
    rep.traces_validated = proc_runs;
    rep.distinct_nontrivial = evals.load(Ordering::Relaxed);
    rep.rule = "sessions (minimal with 2/3-digit lengths, ASCII, non-ASCII document with non-ASCII server output, 4-digit and 5-digit body lengths incl. a frame larger than the initial read buffer, many small frames) x every two-way split of the byte stream, three-way splits (all pairs for the minimal session, pairs within a window otherwise), one byte per read; the decoded behaviour (responses in order, notifications in order) must equal the unsplit run and every emitted frame must parse with an exact Content-Length; for the minimal session every two-way split under all schedules (client task feeding the chunks, reads may be Pending) within the preemption bound; two-way splits against the release binary with pipe-drain synchronised writes".into();
    rep.bounds = json!({"sessions": stats, "schedule_executions": sched_execs, "process_runs": proc_runs});
    rep.sample(json!({"session": "non-ascii", "cuts": [57]}));
    rep.assumptions = vec!["a read never returns more than one written chunk (shim stdin); OS pipe semantics are trusted for the process runs".into()];
    rep.failures = fails;
    rep
}

pub fn replay(case: &Value) -> Vec<Failure> {
    if case["huge_response"] == json!(true) {
        return eval_huge_response().map(|(k, d)| vec![Failure { key: format!("framing:binary:huge-response:{}", k), case: case.clone(), detail: d }]).unwrap_or_default();
    }
    let name = case["session"].as_str().unwrap_or("");
    let Some(s) = sessions(Tier::Quick).into_iter().find(|s| s.name == name) else { return vec![] };
    let cuts: Vec<usize> = case["cuts"].as_array().map(|a| a.iter().filter_map(|v| v.as_u64().map(|x| x as usize)).collect()).unwrap_or_default();
    let cuts: Vec<usize> = if cuts == [usize::MAX] || cuts.first().map(|c| *c as u64 == u64::MAX).unwrap_or(false) { (1..s.bytes.len()).collect() } else { cuts };
    let base = run_inproc(&s.bytes);
    let o = run_inproc_chunks(&split_at(&s.bytes, &cuts));
    match (observe(&base), observe(&o)) {
        (Ok(a), Ok(b)) if a == b => vec![],
        (_, Err(e)) => vec![Failure { key: "framing:error".into(), case: case.clone(), detail: e }],
        _ => vec![Failure { key: "framing:differs".into(), case: case.clone(), detail: "behaviour differs from the unsplit run".into() }],
    }
}
