//! C04 — the syntax tree is the derivation the SPL grammar mandates.  E-INPUT.
use crate::common::*;
use crate::gen::ast::*;
use crate::gen::layout::*;
use crate::progs::*;
use crate::project;
use rayon::prelude::*;
use serde_json::{json, Value};
use spl_frontend::{lexer, parser, ErrorContainer};
use std::collections::BTreeMap;
use std::sync::atomic::{AtomicU64, Ordering};

/// expected spans in the numbering of the real token vector (comments included): a node covers
/// its own tokens and starts at the comments directly in front of its first token.
pub fn expected_spans(pr: &Printed, r: &Rendered) -> Vec<Span> {
    let lead = |tok: usize| -> usize {
        // number of comment tokens directly in front of token `tok`
        let prev_real = if tok == 0 { 0 } else { r.real_index[tok - 1] + 1 };
        r.real_index[tok] - prev_real
    };
    pr.spans
        .iter()
        .enumerate()
        .map(|(si, s)| {
            let lead = |t: usize| if pr.no_lead.contains(&si) { 0 } else { lead(t) };
            if s.first == s.end {
                // empty node (only the Program node of an empty program)
                Span { kind: s.kind.clone(), first: 0, end: 0 }
            } else {
                Span {
                    kind: s.kind.clone(),
                    first: r.real_index[s.first] - lead(s.first),
                    end: r.real_index[s.end - 1] + 1,
                }
            }
        })
        .collect()
}

/// Returns Err((kind, detail)).
pub fn eval_text(p: &RProgram, pr: &Printed, r: &Rendered) -> Result<(), (String, String)> {
    let text = &r.text;
    let res = guarded(|| {
        let tokens = lexer::lex(text);
        let prog = parser::parse(&tokens);
        (tokens, prog)
    });
    let (tokens, prog) = match res {
        Ok(x) => x,
        Err(pn) => return Err(("panic".into(), pn)),
    };
    if tokens.len() != r.real_len + 1 {
        return Err((
            "token-count".into(),
            format!("lexer produced {} tokens, generator printed {}", tokens.len() - 1, r.real_len),
        ));
    }
    let errs = prog.errors();
    if !errs.is_empty() {
        return Err(("syntax-diagnostic-on-valid-program".into(), format!("{:?}", errs)));
    }
    let pj = match project::project(&prog) {
        Ok(pj) => pj,
        Err(e) => return Err(("error-node-in-tree".into(), e)),
    };
    let want = project::normalize(p);
    if pj.program != want {
        return Err((
            "structure".into(),
            format!("parsed={:?}\nexpected={:?}", pj.program, want),
        ));
    }
    let exp = expected_spans(pr, r);
    if pj.spans != exp {
        let i = pj
            .spans
            .iter()
            .zip(&exp)
            .position(|(a, b)| a != b)
            .unwrap_or(pj.spans.len().min(exp.len()));
        return Err((
            format!("range:{:?}", exp.get(i).map(|s| s.kind.clone())),
            format!("node #{}: parsed={:?} expected={:?}", i, pj.spans.get(i), exp.get(i)),
        ));
    }
    Ok(())
}

/// comment gaps belonging to the focus declaration (incl. the gap after its last token)
pub fn focus_gaps(pr: &Printed, focus_decl: usize) -> Vec<usize> {
    match pr.decl_spans.get(focus_decl) {
        Some((a, b)) => (*a..=*b).collect(),
        None => vec![0],
    }
}

#[derive(Clone, Debug)]
pub struct Variant {
    pub layout: Layout,
    pub gaps: Vec<usize>,
}

pub fn variants(pr: &Printed, focus_decl: usize, all_gaps_for_everything: bool) -> Vec<Variant> {
    let mut v: Vec<Variant> = ALL_LAYOUTS.iter().map(|l| Variant { layout: *l, gaps: vec![] }).collect();
    let n = pr.toks.len();
    let gaps: Vec<usize> = if all_gaps_for_everything { (0..=n).collect() } else { focus_gaps(pr, focus_decl) };
    for g in gaps {
        v.push(Variant { layout: Layout::Spaces, gaps: vec![g] });
    }
    let all: Vec<usize> = (0..=n).collect();
    v.push(Variant { layout: Layout::Minimal, gaps: all.clone() });
    v.push(Variant { layout: Layout::Crlf, gaps: all });
    v
}

/// one, two or three comment lines per gap (several consecutive comment tokens)
pub fn comment_text(g: usize) -> String {
    match g % 4 {
        1 => format!(" c{}\n d{}", g, g),
        3 => format!(" c{}\n\n e{}", g, g),
        _ => format!(" c{}", g),
    }
}

pub fn run(tier: Tier) -> Report {
    let mut rep = Report::new("C04", tier);
    let items = syntactic_family(tier);
    let evals = AtomicU64::new(0);
    let fails: Vec<Failure> = items
        .par_iter()
        .enumerate()
        .flat_map_iter(|(i, it)| {
            let pr = print_program(&it.program);
            let mut out = vec![];
            // every 97th program gets comments in every single gap of the whole text
            for v in variants(&pr, it.focus_decl, i % 97 == 0) {
                let r = render(&pr.toks, v.layout, &v.gaps, &comment_text);
                evals.fetch_add(1, Ordering::Relaxed);
                if let Err((kind, detail)) = eval_text(&it.program, &pr, &r) {
                    if out.len() < 3 {
                        out.push(Failure {
                            key: format!("parse:{}", kind),
                            case: json!({"text": r.text, "family": it.family, "layout": format!("{:?}", v.layout), "comment_gaps": v.gaps,
                                "expected_tree": format!("{:?}", project::normalize(&it.program)),
                                "expected_spans": expected_spans(&pr, &r).iter().map(|s| format!("{:?}:{}..{}", s.kind, s.first, s.end)).collect::<Vec<_>>()}),
                            detail,
                        });
                    }
                }
            }
            out
        })
        .collect();
    let mut by_family: BTreeMap<&str, u64> = BTreeMap::new();
    for it in &items {
        *by_family.entry(it.family).or_default() += 1;
    }
    rep.states = items.len() as u64;
    rep.transitions = evals.load(Ordering::Relaxed);
    rep.evaluations = rep.transitions;
    rep.traces_validated = rep.transitions;
    rep.distinct_nontrivial = items.len() as u64;
    rep.rule = "derivations of the SPL grammar enumerated exhaustively by token count per focus family (distinct by construction) x 6 layouts x a comment line in every single gap of the focus declaration (every gap of the text for every 97th program) x comments in all gaps at once; distinct_nontrivial counts distinct derivations".into();
    rep.bounds = json!({"derivations_per_family": by_family});
    if let Some(it) = items.get(items.len() / 2) {
        let pr = print_program(&it.program);
        rep.sample(json!({"family": it.family, "text": render_plain(&pr.toks, Layout::Pretty).text}));
    }
    if let Some(it) = items.last() {
        let pr = print_program(&it.program);
        rep.sample(json!({"family": it.family, "text": render(&pr.toks, Layout::Spaces, &[1], &comment_text).text}));
    }
    rep.assumptions = vec![
        "expected tree = the generating derivation (left fold of the LL grammar), no reference parser".into(),
        "bounded by token count per family and by the identifier/literal/operator pools printed in bounds".into(),
    ];
    rep.failures = fails;
    rep
}

pub fn replay(case: &Value) -> Vec<Failure> {
    // the stored text is re-parsed; structure is compared against the tree re-derived from the
    // same text by the projection of a *fresh* parse under a different layout (Spaces, no
    // comments) is not available without the generator tree, so the replay re-checks the
    // diagnostics/error-node part and prints the tree for inspection.
    let text = case["text"].as_str().unwrap_or("").to_string();
    let res = guarded(|| {
        let tokens = lexer::lex(&text);
        parser::parse(&tokens)
    });
    match res {
        Err(p) => vec![Failure { key: "parse:panic".into(), case: case.clone(), detail: p }],
        Ok(prog) => {
            let mut out = vec![];
            if !prog.errors().is_empty() {
                out.push(Failure { key: "parse:syntax-diagnostic-on-valid-program".into(), case: case.clone(), detail: format!("{:?}", prog.errors()) });
            }
            match project::project(&prog) {
                Err(e) => out.push(Failure { key: "parse:error-node-in-tree".into(), case: case.clone(), detail: e }),
                Ok(pj) => {
                    if let Some(want) = case["expected_tree"].as_str() {
                        if format!("{:?}", pj.program) != want {
                            out.push(Failure { key: "parse:structure".into(), case: case.clone(), detail: format!("parsed {:?}\nexpected {}", pj.program, want) });
                        }
                    }
                    if let Some(want) = case["expected_spans"].as_array() {
                        let got: Vec<Value> = pj.spans.iter().map(|s| json!(format!("{:?}:{}..{}", s.kind, s.first, s.end))).collect();
                        if &got != want {
                            out.push(Failure { key: "parse:range".into(), case: case.clone(), detail: format!("node ranges {:?}\nexpected {:?}", got, want) });
                        }
                    }
                }
            }
            out
        }
    }
}
