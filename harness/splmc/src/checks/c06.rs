//! C06 — tokenisation is lossless (tiling) and follows the SPL lexical grammar (conformance
//! with the independent reference lexer `reflex`).  E-INPUT: bounded-exhaustive strings.
use crate::common::*;
use crate::reflex::{self, RKind, RTok};
use crate::soup::*;
use rayon::prelude::*;
use serde_json::{json, Value};
use spl_frontend::lexer;
use spl_frontend::tokens::{IntResult, Token, TokenType};
use std::sync::atomic::{AtomicU64, Ordering};

pub const LEXEMES: &[&str] = &[
    "(", ")", "[", "]", "{", "}", "=", "#", "<", "<=", ">", ">=", ":=", ":", ",", ";", "+", "-",
    "*", "/", // symbols
    "if", "else", "while", "array", "of", "proc", "ref", "type", "var", // keywords
    "a", "i", "iff", "if_", "if1", "_x", "x1", "X1F", "ofa", "Var",
    // a keyword continued by 256 letters (258 characters: an identifier)
    "ifaaaaaaaaaaaaaaaaaaaaaaaaaaaaaaaaaaaaaaaaaaaaaaaaaaaaaaaaaaaaaaaaaaaaaaaaaaaaaaaaaaaaaaaaaaaaaaaaaaaaaaaaaaaaaaaaaaaaaaaaaaaaaaaaaaaaaaaaaaaaaaaaaaaaaaaaaaaaaaaaaaaaaaaaaaaaaaaaaaaaaaaaaaaaaaaaaaaaaaaaaaaaaaaaaaaaaaaaaaaaaaaaaaaaaaaaaaaaaaaaaaaaaaaaaaaaaaaa",
    // identifiers near keywords ("0" + "X1F" is no hex literal: the prefix is a lower-case x)
    "0", "7", "2147483647", "4294967296", "00000000001", "04294967295", // decimal (the last two: leading zeros, more than ten digits)
    "0x1F", "0xab", "0xFFFFFFFF", "0x100000000", "0x10000000000000001", "0x", // hexadecimal (17 digits: out of range whatever the width of the accumulator; last one malformed)
    "'a'", "'\\n'", "' '", "'\\'", "'", // character literals (a backslash is an ordinary character; last one malformed)
    "// c\n", "// d", "//", // comments: terminated, at end of text, empty
];
pub const SEPARATORS: &[&str] = &["", " ", "\t", "\n", "\r\n"];

fn sym_of(t: &TokenType) -> Option<&'static str> {
    use TokenType::*;
    Some(match t {
        LParen => "(",
        RParen => ")",
        LBracket => "[",
        RBracket => "]",
        LCurly => "{",
        RCurly => "}",
        Eq => "=",
        Neq => "#",
        Lt => "<",
        Le => "<=",
        Gt => ">",
        Ge => ">=",
        Assign => ":=",
        Colon => ":",
        Comma => ",",
        Semic => ";",
        Plus => "+",
        Minus => "-",
        Times => "*",
        Divide => "/",
        _ => return None,
    })
}
fn kw_of(t: &TokenType) -> Option<&'static str> {
    use TokenType::*;
    Some(match t {
        If => "if",
        Else => "else",
        While => "while",
        Array => "array",
        Of => "of",
        Proc => "proc",
        Ref => "ref",
        Type => "type",
        Var => "var",
        _ => return None,
    })
}

/// Tiling oracle. Returns a failure kind.
pub fn check_tiling(text: &str, toks: &[Token]) -> Result<(), String> {
    let Some((eof, body)) = toks.split_last() else {
        return Err("no-eof".into());
    };
    if eof.token_type != TokenType::Eof || eof.range != (text.len()..text.len()) {
        return Err("eof-misplaced".into());
    }
    let mut pos = 0usize;
    for t in body {
        if t.token_type == TokenType::Eof {
            return Err("eof-duplicate".into());
        }
        let r = &t.range;
        if r.start < pos {
            return Err("overlap-or-unordered".into());
        }
        if r.end <= r.start {
            return Err("empty-token".into());
        }
        if r.end > text.len() || !text.is_char_boundary(r.start) || !text.is_char_boundary(r.end) {
            return Err("not-on-char-boundary".into());
        }
        if !text[pos..r.start].chars().all(|c| c.is_whitespace()) {
            return Err("gap-drops-characters".into());
        }
        pos = r.end;
    }
    if !text[pos..].chars().all(|c| c.is_whitespace()) {
        return Err("gap-drops-characters".into());
    }
    Ok(())
}

/// Conformance oracle against reflex; only called when reflex found the text lexically valid.
pub fn check_conformance(text: &str, toks: &[Token], reference: &[RTok]) -> Result<(), String> {
    let body = &toks[..toks.len() - 1];
    if body.len() != reference.len() {
        return Err(format!("token-count {} vs {}", body.len(), reference.len()));
    }
    for (t, r) in body.iter().zip(reference) {
        let kind_ok = match (&t.token_type, &r.kind) {
            (tt, RKind::Sym(s)) => sym_of(tt) == Some(*s),
            (tt, RKind::Kw(k)) => kw_of(tt) == Some(*k),
            (TokenType::Ident(a), RKind::Ident(b)) => a == b,
            (TokenType::Int(IntResult::Int(v)), RKind::Int(Some(w))) => v == w,
            // out-of-range literal: SPL defines no value - the token must not carry one (a
            // literal that silently wraps around would be a different number)
            (TokenType::Int(IntResult::Int(_)), RKind::Int(None)) => false,
            (TokenType::Int(_), RKind::Int(None)) => true,
            (TokenType::Hex(IntResult::Int(v)), RKind::Hex(Some(w))) => v == w,
            (TokenType::Hex(IntResult::Int(_)), RKind::Hex(None)) => false,
            (TokenType::Hex(_), RKind::Hex(None)) => true,
            (TokenType::Char(c), RKind::Char(code)) => *c as u32 == *code,
            (TokenType::Comment(a), RKind::Comment(b)) => a.trim_end_matches('\r') == b.trim_end_matches('\r'),
            _ => false,
        };
        if !kind_ok {
            return Err(format!("kind/value: {:?} vs {:?}", t.token_type, r.kind));
        }
        let end_ok = if matches!(r.kind, RKind::Comment(_)) {
            // the line end may or may not be counted into the comment token
            t.range.end == r.end || (t.range.end == r.end + 1 && text.as_bytes().get(r.end) == Some(&b'\n'))
        } else {
            t.range.end == r.end
        };
        if t.range.start != r.start || !end_ok {
            return Err(format!("range: {:?} vs {}..{} ({:?})", t.range, r.start, r.end, r.kind));
        }
        let in_range = |v: &Option<u32>| v.is_some();
        let has_value = match &r.kind {
            RKind::Int(v) | RKind::Hex(v) => in_range(v),
            _ => true,
        };
        if has_value && !t.errors.is_empty() {
            return Err(format!("spurious lexical error on valid lexeme {:?}: {:?}", r.kind, t.errors));
        }
        if !has_value && t.errors.is_empty() {
            return Err(format!("no lexical error on the out-of-range literal {:?}", &text[r.start..r.end]));
        }
    }
    Ok(())
}

fn class_of_text(text: &str, reference: &[RTok], detail: &str) -> String {
    // finding key: lexeme class involved (generator vocabulary)
    let _ = text;
    if detail.starts_with("token-count") || detail.starts_with("kind") || detail.starts_with("range") {
        // first reference token kind that is a comment at end of text?
        if let Some(RTok { kind: RKind::Comment(_), end, .. }) = reference.last() {
            if *end == text.len() {
                return "comment-at-end-of-text-without-newline".into();
            }
        }
    }
    "other".into()
}

pub fn eval_text(text: &str) -> (Option<Failure>, bool) {
    let toks = match guarded(|| lexer::lex(text)) {
        Ok(t) => t,
        Err(p) => {
            return (
                Some(Failure { key: "lex:panic".into(), case: json!({"text": text}), detail: p }),
                false,
            )
        }
    };
    if let Err(kind) = check_tiling(text, &toks) {
        return (
            Some(Failure {
                key: format!("tiling:{}", kind),
                case: json!({"text": text}),
                detail: format!("{:?}", toks.iter().map(|t| (format!("{:?}", t.token_type), t.range.clone())).collect::<Vec<_>>()),
            }),
            false,
        );
    }
    let reference = reflex::lex(text);
    if reflex::is_valid(&reference) {
        if let Err(d) = check_conformance(text, &toks, &reference) {
            return (
                Some(Failure {
                    key: format!("conformance:{}", class_of_text(text, &reference, &d)),
                    case: json!({"text": text}),
                    detail: format!("{} | impl={:?}", d, toks.iter().map(|t| (format!("{:?}", t.token_type), t.range.clone())).collect::<Vec<_>>()),
                }),
                true,
            );
        }
        return (None, true);
    }
    (None, false)
}

pub fn run(tier: Tier) -> Report {
    let mut rep = Report::new("C06", tier);
    let evals = AtomicU64::new(0);
    let valid = AtomicU64::new(0);
    let mut fails: Vec<Failure> = vec![];
    let mut fam = vec![];

    // (1) character soups
    for (name, alpha, max) in [
        ("char-soup", sigma_char(false), tier.pick(4, 6)),
        ("char-soup-extended-alphabet", sigma_char(true), tier.pick(3, 5)),
        ("char-soup-space-like-characters", SIGMA_CHAR_SPACE_LIKE.to_vec(), tier.pick(4, 5)),
    ] {
        let texts = Strings::new(&alpha, max);
        let f: Vec<Failure> = (0..texts.count())
            .into_par_iter()
            .filter_map(|i| {
                let t = texts.get(i);
                evals.fetch_add(1, Ordering::Relaxed);
                let (f, v) = eval_text(&t);
                if v {
                    valid.fetch_add(1, Ordering::Relaxed);
                }
                f
            })
            .collect();
        fam.push(json!({"family": name, "alphabet": alpha, "max_len": max, "texts": texts.count(), "failing": f.len()}));
        fails.extend(f.into_iter().take(MAX_KEPT_FAILURES));
    }
    // (2) lexeme sequences x separators
    let max = tier.pick(3, 4);
    let seqs = Strings::new(LEXEMES, max);
    for sep in SEPARATORS {
        let f: Vec<Failure> = (0..seqs.count())
            .into_par_iter()
            .filter_map(|i| {
                let t = seqs.get_joined(i, sep);
                evals.fetch_add(1, Ordering::Relaxed);
                let (f, v) = eval_text(&t);
                if v {
                    valid.fetch_add(1, Ordering::Relaxed);
                }
                f
            })
            .collect();
        fam.push(json!({"family": "lexeme-sequences", "separator": sep, "max_lexemes": max, "texts": seqs.count(), "failing": f.len()}));
        fails.extend(f.into_iter().take(MAX_KEPT_FAILURES));
    }
    let n = evals.load(Ordering::Relaxed);
    rep.states = n;
    rep.transitions = n;
    rep.evaluations = n;
    rep.traces_validated = n;
    rep.distinct_nontrivial = valid.load(Ordering::Relaxed);
    rep.rule = "all strings over the character alphabets up to the length bound and all sequences of lexemes up to the count bound joined by each separator; tiling is checked on every text; non-trivial = texts that the reference lexer accepts as lexically valid, on which kinds, values and ranges are compared with the reference lexer (texts are distinct within a family by construction)".into();
    rep.bounds = json!({"families": fam, "lexemes": LEXEMES, "separators": SEPARATORS});
    rep.sample(json!({"text": "if1<=0x1F'\\n'// c\n"}));
    rep.sample(json!({"text": "a//"}));
    rep.assumptions = vec![
        "reference lexer reflex.rs (hand-written, unit-tested) is the oracle of the conformance part".into(),
        "integer values are compared only for literals that fit 32 bits".into(),
    ];
    rep.failures = fails;
    rep
}

pub fn replay(case: &Value) -> Vec<Failure> {
    let t = case["text"].as_str().unwrap_or("");
    eval_text(t).0.into_iter().collect()
}
