//! C16 — completion proposals respect scope and syntactic position.
use crate::checks::nav::*;
use crate::common::*;
use crate::gen::ast::*;
use crate::gen::layout::Layout;
use crate::gen::refsem::{Entity, BUILTIN_PROCS};
use crate::lsptext;
use crate::progs;
use crate::session::*;
use rayon::prelude::*;
use serde_json::{json, Value};
use std::collections::BTreeSet;
use std::sync::atomic::{AtomicU64, Ordering};

#[derive(Clone, Copy, Debug, PartialEq, Eq)]
pub enum PosClass {
    /// gap in front of the first token of a statement or of the closing brace of a body/block
    StatementStart,
    /// gap behind `:=` or behind the `(` of a call / condition
    ExpressionStart,
    /// gap behind `:` of a parameter or variable declaration
    TypePosition,
    /// gap between two global declarations, in front of the first or behind the last one
    TopLevel,
}

/// (class, token k whose leading gap is probed, index of the enclosing declaration)
pub fn classified_gaps(doc: &Doc) -> Vec<(PosClass, usize, usize)> {
    let mut out = vec![];
    let toks = &doc.pr.toks;
    let n = toks.len();
    // statement starts (incl. closing braces of statement lists)
    for &k in &doc.pr.stmt_starts {
        if k < n {
            out.push((PosClass::StatementStart, k, toks[k].decl));
        }
    }
    for k in 1..n {
        let prev = &toks[k - 1];
        let in_proc = matches!(doc.item.program.decls[prev.decl], RDecl::Proc { .. });
        match prev.text.as_str() {
            ":=" => out.push((PosClass::ExpressionStart, k, prev.decl)),
            "(" if in_proc && k >= 2 => {
                // any `(` inside a statement: of a call, an if, a while or a bracketed
                // expression (not the parameter list of the procedure header)
                let before = &toks[k - 2];
                let is_header = matches!(before.class, TokClass::Ident(Role::ProcDecl));
                // inside an assignment only behind its `:=` (the left-hand side is "an arbitrary
                // identifier" for the implementation and the property names `:=` as the start)
                let mut best: Option<&Span> = None;
                for sp in &doc.pr.spans {
                    if matches!(sp.kind, NodeKind::StmtAssign | NodeKind::StmtCall | NodeKind::StmtIf | NodeKind::StmtWhile) && sp.first < k && k <= sp.end {
                        if best.map(|b| sp.end - sp.first <= b.end - b.first).unwrap_or(true) {
                            best = Some(sp);
                        }
                    }
                }
                let behind_assign = match best {
                    Some(sp) if sp.kind == NodeKind::StmtAssign => toks[sp.first..k - 1].iter().any(|t| t.text == ":="),
                    Some(_) => true,
                    None => false,
                };
                if !is_header && behind_assign {
                    out.push((PosClass::ExpressionStart, k, prev.decl));
                }
            }
            ":" if in_proc => out.push((PosClass::TypePosition, k, prev.decl)),
            _ => {}
        }
    }
    // top level: in front of every declaration and behind the last token
    for (a, _) in &doc.pr.decl_spans {
        out.push((PosClass::TopLevel, *a, usize::MAX));
    }
    out.push((PosClass::TopLevel, n, usize::MAX));
    out
}

/// byte positions inside the gap in front of token k: prev.end <= p < next.start, plus
/// p == next.start when the next token is punctuation (or the end of the text)
pub fn gap_offsets(doc: &Doc, k: usize) -> Vec<usize> {
    let text = doc.text();
    let prev_end = if k == 0 { 0 } else { doc.r.tok_ranges[k - 1].1 };
    let next_start = doc.r.tok_ranges.get(k).map(|r| r.0).unwrap_or(text.len());
    // a gap that contains comment lines is probed behind the last of them: from the first
    // byte of the following line (a comment runs to the end of its line)
    let last_comment_end = doc.r.comments.iter().filter(|c| c.1 >= prev_end && c.2 <= next_start).map(|c| c.2).max();
    // a cursor directly behind a token touches that token (it may still be extended by
    // typing), so the gap proper starts one white-space character behind it
    let from = match last_comment_end {
        Some(e) => {
            let rest = &text[e..next_start];
            e + if rest.starts_with("\r\n") { 2 } else if rest.starts_with('\n') || rest.starts_with('\r') { 1 } else { 0 }
        }
        None => {
            if k == 0 {
                0
            } else {
                prev_end + 1
            }
        }
    };
    let mut v: Vec<usize> = (from..next_start).filter(|p| text.is_char_boundary(*p)).collect();
    // directly in front of the next token: in front of punctuation always; in front of a word
    // (identifier, keyword, literal) when white space separates the cursor from the previous
    // token - typing there starts a new word only together with a following blank, but the
    // position itself still is the gap's (the implementation looks at the character in front)
    let punct = doc.pr.toks.get(k).map(|t| matches!(t.class, TokClass::Symbol)).unwrap_or(true);
    let after_space = next_start > 0 && text[..next_start].ends_with([' ', '\t', '\n', '\r']) && next_start > from.saturating_sub(1);
    if (punct || after_space) && next_start >= from {
        v.push(next_start);
    }
    // top-level gap in front of the first token: position 0 only makes sense in an empty gap
    v.retain(|p| lsptext::offset(text, lsptext::position(text, *p).0, lsptext::position(text, *p).1) == Some(*p));
    v.dedup();
    v
}

fn kind_name(k: u64) -> &'static str {
    match k {
        6 => "VARIABLE",
        3 => "FUNCTION",
        22 => "STRUCT",
        14 => "KEYWORD",
        15 => "SNIPPET",
        _ => "OTHER",
    }
}

pub fn eval_doc(doc: &Doc) -> (Vec<Failure>, u64, std::collections::BTreeMap<String, (u64, u64)>) {
    let mut stats: std::collections::BTreeMap<String, (u64, u64)> = Default::default();
    let gaps = classified_gaps(doc);
    let mut s = Session::new(false);
    s.open(URI, doc.text());
    let mut reqs = vec![];
    for (class, k, decl) in &gaps {
        for p in gap_offsets(doc, *k) {
            let (l, c) = lsptext::position(doc.text(), p);
            reqs.push((*class, *k, *decl, p, s.pos_request("textDocument/completion", URI, l, c)));
        }
    }
    let n = reqs.len() as u64;
    let out = s.run();
    let mut fails = vec![];
    if let Some(e) = out.error.clone().or(out.frame_error.clone()) {
        fails.push(Failure { key: "completion:error".into(), case: doc.case(Value::Null), detail: e });
        return (fails, n, stats);
    }
    let resp = out.responses();
    // reference sets
    let procs: BTreeSet<String> = doc
        .sem
        .globals
        .iter()
        .filter(|(_, e)| matches!(e, Entity::Proc { .. }))
        .map(|(n, _)| n.clone())
        .collect();
    debug_assert!(BUILTIN_PROCS.iter().all(|(n, _)| procs.contains(*n)));
    let types: BTreeSet<String> = doc
        .sem
        .globals
        .iter()
        .filter(|(_, e)| matches!(e, Entity::Type { .. }))
        .map(|(n, _)| n.clone())
        .collect();
    let all_locals: BTreeSet<String> = doc.sem.locals.iter().flat_map(|l| l.keys().cloned()).collect();
    for (class, k, decl, p, id) in reqs {
        let res = resp.get(&id).and_then(|r| r.get("result").cloned()).unwrap_or(json!("no result"));
        let items: Vec<(String, &'static str)> = res
            .as_array()
            .map(|a| a.iter().map(|i| (i["label"].as_str().unwrap_or("").to_string(), kind_name(i["kind"].as_u64().unwrap_or(0)))).collect())
            .unwrap_or_default();
        let of_kind = |k: &str| -> BTreeSet<String> { items.iter().filter(|(_, kk)| *kk == k).map(|(l, _)| l.clone()).collect() };
        let dup = |k: &str| items.iter().filter(|(_, kk)| *kk == k).count() != of_kind(k).len();
        let mut problems: Vec<(String, String)> = vec![];
        match class {
            PosClass::StatementStart | PosClass::ExpressionStart => {
                let locals: BTreeSet<String> = doc.sem.locals[decl].keys().cloned().collect();
                let got = of_kind("VARIABLE");
                if got != locals || dup("VARIABLE") {
                    let foreign: Vec<&String> = got.iter().filter(|g| !locals.contains(*g) && all_locals.contains(*g)).collect();
                    problems.push((
                        if !foreign.is_empty() { "variables-of-another-procedure".into() } else if got.is_empty() { "no-variables".into() } else { "variables".into() },
                        format!("variables {:?}, locals of the procedure {:?}", got, locals),
                    ));
                }
                if class == PosClass::StatementStart {
                    let gotp = of_kind("FUNCTION");
                    if gotp != procs || dup("FUNCTION") {
                        problems.push(("procedures".into(), format!("procedures {:?}, declared+predefined {:?}", gotp, procs)));
                    }
                }
            }
            PosClass::TypePosition => {
                let got = of_kind("STRUCT");
                if got != types || dup("STRUCT") {
                    problems.push(("types".into(), format!("types {:?}, declared+int {:?}", got, types)));
                }
            }
            PosClass::TopLevel => {
                let bad: Vec<&(String, &str)> = items
                    .iter()
                    .filter(|(l, k)| !(matches!(*k, "KEYWORD" | "SNIPPET") && matches!(l.as_str(), "proc" | "type" | "main")))
                    .collect();
                if !bad.is_empty() || items.is_empty() {
                    problems.push(("not-only-declaration-starters".into(), format!("items {:?}", items)));
                }
            }
        }
        {
            let prev = if k == 0 { "^".to_string() } else { doc.pr.toks[k - 1].text.clone() };
            let sub = format!("{}{}", if class == PosClass::StatementStart && matches!(prev.as_str(), ")" | "else") { ":branch-of-if-or-while" } else { "" }, if doc.gaps.contains(&k) { ":behind-a-comment-line" } else { "" });
            let checks: &[&str] = match class {
                PosClass::StatementStart => &["variables", "procedures"],
                PosClass::ExpressionStart => &["variables"],
                PosClass::TypePosition => &["types"],
                PosClass::TopLevel => &["not-only-declaration-starters"],
            };
            for c in checks {
                let e = stats.entry(format!("completion:{:?}{}:{}", class, sub, c)).or_default();
                e.0 += 1;
                if problems.iter().any(|(w, _)| w == c || (*c == "variables" && w.contains("variables"))) {
                    e.1 += 1;
                }
            }
        }
        for (what, d) in problems {
            if fails.len() < 60 {
                let prev = if k == 0 { "^".to_string() } else { doc.pr.toks[k - 1].text.clone() };
                let next = doc.pr.toks.get(k).map(|t| t.text.clone()).unwrap_or_else(|| "$".into());
                let rel = if p == doc.r.tok_ranges.get(k).map(|r| r.0).unwrap_or(doc.text().len()) { "at-next-token" } else if k > 0 && p == doc.r.tok_ranges[k - 1].1 { "right-behind-previous-token" } else { "inside-gap" };
                let next_class = doc.pr.toks.get(k).map(|t| match &t.class { TokClass::Ident(_) => "id".to_string(), TokClass::Number => "num".to_string(), _ => t.text.clone() }).unwrap_or_else(|| "$".into());
                let prev_class = if k == 0 { "^".to_string() } else { match &doc.pr.toks[k - 1].class { TokClass::Ident(_) => "id".to_string(), TokClass::Number => "num".to_string(), _ => doc.pr.toks[k - 1].text.clone() } };
                let _ = (&prev_class, &next_class, rel);
                let sub = format!("{}{}", if class == PosClass::StatementStart && matches!(prev.as_str(), ")" | "else") { ":branch-of-if-or-while" } else { "" }, if doc.gaps.contains(&k) { ":behind-a-comment-line" } else { "" });
                fails.push(Failure {
                    key: format!("completion:{:?}{}:{}", class, sub, what),
                    case: doc.case(json!({"method": "textDocument/completion", "offset": p, "position": lsptext::position(doc.text(), p), "class": format!("{:?}", class),
                        "expected": {"VARIABLE": if class == PosClass::TopLevel || class == PosClass::TypePosition { Value::Null } else { json!(doc.sem.locals.get(decl).map(|l| l.keys().cloned().collect::<BTreeSet<_>>()).unwrap_or_default()) },
                                     "FUNCTION": if class == PosClass::StatementStart { json!(procs) } else { Value::Null },
                                     "STRUCT": if class == PosClass::TypePosition { json!(types) } else { Value::Null }}})),
                    detail: format!("byte {} between {:?} and {:?} ({:?}): {}", p, prev, next, class, d),
                });
            }
        }
    }
    (fails, n, stats)
}

pub fn run(tier: Tier) -> Report {
    let mut rep = Report::new("C16", tier);
    let items = progs::typed_family(tier);
    let calls = AtomicU64::new(0);
    let docs = AtomicU64::new(0);
    let layouts = [Layout::Spaces, Layout::Tabs, Layout::Pretty, Layout::Lines];
    let class_stats: std::sync::Mutex<std::collections::BTreeMap<String, (u64, u64)>> = Default::default();
    let fails: Vec<Failure> = items
        .par_iter()
        .enumerate()
        .flat_map_iter(|(i, it)| {
            let nvar = if (it.family == "scenario-permutations" || progs::always_included(it.family)) { 4 } else { 1 + (i % 4 == 0) as usize };
            let mut out = vec![];
            let mut docs_of_item: Vec<Doc> = (0..nvar).map(|k| Doc::new(it, layouts[(i + k) % layouts.len()], vec![])).collect();
            // ... and with a comment line in every classified gap (the position behind it, on the
            // next line, is the same kind of position)
            if (it.family == "scenario-permutations" || progs::always_included(it.family)) || i % 3 == 0 {
                let plain = &docs_of_item[0];
                let mut gaps: Vec<usize> = classified_gaps(plain).iter().map(|g| g.1).collect();
                gaps.sort();
                gaps.dedup();
                let l = [Layout::Pretty, Layout::Spaces, Layout::Crlf][i % 3];
                docs_of_item.push(Doc::new(it, l, gaps));
            }
            for doc in docs_of_item {
                let (f, n, st) = eval_doc(&doc);
                calls.fetch_add(n, Ordering::Relaxed);
                docs.fetch_add(1, Ordering::Relaxed);
                {
                    let mut g = class_stats.lock().unwrap();
                    for (k, (a, b)) in st {
                        let e = g.entry(k).or_insert((0u64, 0u64));
                        e.0 += a;
                        e.1 += b;
                    }
                }
                out.extend(f);
            }
            out
        })
        .collect();
    rep.states = docs.load(Ordering::Relaxed);
    rep.transitions = calls.load(Ordering::Relaxed);
    rep.evaluations = rep.transitions;
    rep.traces_validated = rep.transitions;
    rep.distinct_nontrivial = items.len() as u64;
    rep.rule = "well-typed programs with several procedures (shared local names, shadowing) x 4 layouts x every byte position of every white-space gap that is a statement start (incl. in front of a closing brace), follows `:=` or the `(` of a call/if/while, follows `:` in a parameter/variable declaration, or lies between global declarations (prev.end <= p < next.start, and p = next.start in front of punctuation); compared per kind as sets of labels".into();
    let cs = class_stats.lock().unwrap().clone();
    rep.bounds = json!({"programs": items.len(), "documents": rep.states, "position_classes_total_and_failing": cs});
    rep.sample(json!({"text": "proc p(a: int) { } proc main() { var i: int; | i := 1; }", "expected": "variables {i}, procedures {p, main, printi, ...}"}));
    rep.assumptions = vec!["scopes from refsem.rs; keyword and snippet items are ignored except at top level".into()];
    rep.failures = fails;
    rep
}

pub fn replay(case: &Value) -> Vec<Failure> {
    let text = case["text"].as_str().unwrap_or("");
    let rq = &case["request"];
    let mut s = Session::new(false);
    s.open(URI, text);
    let id = rq["position"].as_array().map(|p| s.pos_request("textDocument/completion", URI, p[0].as_u64().unwrap_or(0) as u32, p[1].as_u64().unwrap_or(0) as u32));
    let o = s.run();
    if let Some(e) = o.error.clone().or(o.frame_error.clone()) {
        return vec![Failure { key: "completion:error".into(), case: case.clone(), detail: e }];
    }
    let Some(id) = id else { return vec![] };
    let got = o.responses().get(&id).and_then(|r| r.get("result").cloned()).unwrap_or(Value::Null);
    let items: Vec<(String, &'static str)> = got.as_array().map(|a| a.iter().map(|i| (i["label"].as_str().unwrap_or("").to_string(), kind_name(i["kind"].as_u64().unwrap_or(0)))).collect()).unwrap_or_default();
    let mut out = vec![];
    for kind in ["VARIABLE", "FUNCTION", "STRUCT"] {
        if let Some(exp) = rq["expected"][kind].as_array() {
            let want: BTreeSet<String> = exp.iter().filter_map(|v| v.as_str().map(|s| s.to_string())).collect();
            let have: BTreeSet<String> = items.iter().filter(|(_, k)| *k == kind).map(|(l, _)| l.clone()).collect();
            if want != have {
                out.push(Failure { key: format!("completion:{}", kind), case: case.clone(), detail: format!("{} items {:?}, expected {:?}", kind, have, want) });
            }
        }
    }
    if rq["class"] == json!("TopLevel") && items.iter().any(|(l, k)| !(matches!(*k, "KEYWORD" | "SNIPPET") && matches!(l.as_str(), "proc" | "type" | "main"))) {
        out.push(Failure { key: "completion:TopLevel".into(), case: case.clone(), detail: format!("{:?}", items) });
    }
    out
}
