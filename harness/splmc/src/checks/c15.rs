//! C15 — semantic tokens are well-formed and agree with lexical class and binding kind.
use crate::checks::nav::*;
use crate::common::*;
use crate::gen::ast::*;
use crate::gen::layout::*;
use crate::gen::refsem::EntKind;
use crate::lsptext;
use crate::progs;
use crate::reflex::{self, RKind, RTok};
use crate::session::*;
use crate::soup::*;
use rayon::prelude::*;
use serde_json::{json, Value};
use std::sync::atomic::{AtomicU64, Ordering};

#[derive(Clone, Debug, PartialEq, Eq)]
pub struct STok {
    pub line: u32,
    pub start: u32,
    pub len: u32,
    pub ty: String,
    pub declaration: bool,
}

fn legend() -> (Vec<String>, Vec<String>) {
    (
        lspcore::features::semantic_tokens::TOKEN_TYPES.iter().map(|t| t.as_str().to_string()).collect(),
        lspcore::features::semantic_tokens::TOKEN_MODIFIERS.iter().map(|t| t.as_str().to_string()).collect(),
    )
}

/// independent decoder of the LSP delta encoding
pub fn decode(data: &[u64]) -> Result<Vec<STok>, String> {
    let (types, mods) = legend();
    decode_with(data, &types, &mods)
}

/// decoder for an explicitly given legend (the one a server announced in `initialize`)
pub fn decode_with(data: &[u64], types: &[String], mods: &[String]) -> Result<Vec<STok>, String> {
    if data.len() % 5 != 0 {
        return Err(format!("data length {} is not a multiple of 5", data.len()));
    }
    let mut out = vec![];
    let (mut line, mut start) = (0u64, 0u64);
    for (i, c) in data.chunks(5).enumerate() {
        if c[0] > 0 {
            line += c[0];
            start = c[1];
        } else {
            start += c[1];
        }
        if c[0] > (1 << 30) || c[1] > (1 << 30) {
            return Err(format!("token #{}: delta {:?} looks like an unsigned underflow", i, &c[..2]));
        }
        let ty = types.get(c[3] as usize).ok_or(format!("token type index {} outside the legend", c[3]))?;
        if c[4] >> mods.len() != 0 {
            return Err(format!("modifier bits {} outside the legend", c[4]));
        }
        let declaration = mods.iter().position(|m| m == "declaration").map(|b| c[4] >> b & 1 == 1).unwrap_or(false);
        out.push(STok { line: line as u32, start: start as u32, len: c[2] as u32, ty: ty.clone(), declaration });
    }
    Ok(out)
}

fn request_tokens(text: &str) -> Result<Vec<STok>, String> {
    request_tokens_after(None, text)
}

/// the one ranged edit (common prefix / suffix removed) that turns `old` into `new`, as byte
/// range of `old` and replacement
pub fn single_edit_bytes(old: &str, new: &str) -> (usize, usize, String) {
    let mut p = old.bytes().zip(new.bytes()).take_while(|(a, b)| a == b).count();
    while !old.is_char_boundary(p) || !new.is_char_boundary(p) {
        p -= 1;
    }
    let mut q = old[p..].bytes().rev().zip(new[p..].bytes().rev()).take_while(|(a, b)| a == b).count();
    while !old.is_char_boundary(old.len() - q) || !new.is_char_boundary(new.len() - q) {
        q -= 1;
    }
    // do not cut a CR LF pair apart: positions between the two do not exist in LSP
    let mut oe = old.len() - q;
    let mut ne = new.len() - q;
    if old[..oe].ends_with('\r') && old[oe..].starts_with('\n') {
        oe += 1;
        ne += 1;
    }
    let mut ps = p;
    if old[..ps].ends_with('\r') && old[ps..].starts_with('\n') {
        ps -= 1;
    }
    (ps, oe, new[ps..ne].to_string())
}

pub fn single_edit(old: &str, new: &str) -> Value {
    let (ps, oe, t) = single_edit_bytes(old, new);
    let (l1, c1) = lsptext::position(old, ps);
    let (l2, c2) = lsptext::position(old, oe);
    json!({"range": {"start": {"line": l1, "character": c1}, "end": {"line": l2, "character": c2}}, "text": t})
}

/// C01's business: does the incremental analysis of that edit produce the tokens and the tree
/// of a fresh analysis? (Where it does not, stale answers are consequences of C01's finding.)
pub fn incremental_tree_agrees(old: &str, new: &str) -> bool {
    let (a, b, t) = single_edit_bytes(old, new);
    let (o, n) = (old.to_string(), new.to_string());
    guarded(move || {
        let inc = spl_frontend::AnalyzedSource::new(o).update(vec![spl_frontend::TextChange { range: a..b, text: t }]);
        let fresh = spl_frontend::AnalyzedSource::new(n);
        inc.tokens == fresh.tokens && inc.ast == fresh.ast
    })
    .unwrap_or(false)
}

/// tokens of `text`; with `previous`: the document is opened as `previous`, asked for its
/// tokens, and then changed into `text` by one ranged edit
fn request_tokens_after(previous: Option<&str>, text: &str) -> Result<Vec<STok>, String> {
    let mut s = Session::new(false);
    match previous {
        None => s.open(URI, text),
        Some(p) => {
            s.open(URI, p);
            s.request("textDocument/semanticTokens/full", doc_request_params("textDocument/semanticTokens/full", URI));
            s.change(URI, json!([single_edit(p, text)]));
        }
    }
    let id = s.request("textDocument/semanticTokens/full", doc_request_params("textDocument/semanticTokens/full", URI));
    let o = s.run();
    if let Some(e) = o.error.clone().or(o.frame_error.clone()) {
        return Err(e);
    }
    let r = o.responses();
    let res = r.get(&id).and_then(|r| r.get("result")).ok_or("no result")?;
    let data: Vec<u64> = res["data"].as_array().ok_or("no data array")?.iter().map(|v| v.as_u64().unwrap_or(u64::MAX)).collect();
    decode(&data)
}

/// client capability variants for the semantic-token legend: what a client says it can render
/// must not change what the tokens mean under the legend the server announces
pub fn legend_client_capabilities(k: usize) -> Value {
    let all = ["namespace", "type", "class", "enum", "interface", "struct", "typeParameter", "parameter", "variable", "property", "enumMember", "event", "function", "method", "macro", "keyword", "modifier", "comment", "string", "number", "regexp", "operator"];
    let st = |types: Vec<&str>| json!({"textDocument": {"semanticTokens": {"requests": {"full": true}, "tokenTypes": types, "tokenModifiers": ["declaration"], "formats": ["relative"]}}});
    match k % 4 {
        0 => json!({}),
        1 => st(all.to_vec()),
        // a client that does not list `comment` / lists the types in another order
        2 => st(all.iter().cloned().filter(|t| *t != "comment" && *t != "keyword").collect()),
        _ => st(all.iter().rev().cloned().collect()),
    }
}

/// the same request against the release binary (the capabilities of `main.rs`), decoded with
/// the legend of that session's InitializeResult
pub fn request_tokens_binary(text: &str, caps: Value) -> Result<Vec<STok>, String> {
    let mut s = Session::with_capabilities(caps);
    s.open(URI, text);
    let id = s.request("textDocument/semanticTokens/full", doc_request_params("textDocument/semanticTokens/full", URI));
    s.msgs.push(request(100_000, "shutdown", Value::Null));
    s.msgs.push(notification("exit", Value::Null));
    let bytes: Vec<u8> = s.msgs.iter().flat_map(frame).collect();
    let o = crate::procdrv::run_chunks(&[bytes], false, std::time::Duration::from_secs(20));
    if o.timed_out || o.frame_error.is_some() {
        return Err(format!("binary session failed: timed out {} {:?}", o.timed_out, o.frame_error));
    }
    let find = |id: i64| o.frames.iter().find(|f| f.get("id").and_then(|v| v.as_i64()) == Some(id) && f.get("method").is_none());
    let init = find(0).ok_or("no initialize response")?;
    let lg = &init["result"]["capabilities"]["semanticTokensProvider"]["legend"];
    let strs = |v: &Value| -> Vec<String> { v.as_array().map(|a| a.iter().filter_map(|x| x.as_str().map(|s| s.to_string())).collect()).unwrap_or_default() };
    let (types, mods) = (strs(&lg["tokenTypes"]), strs(&lg["tokenModifiers"]));
    if types.is_empty() {
        return Err(format!("no legend announced: {}", init));
    }
    let res = find(id).and_then(|r| r.get("result")).ok_or("no result")?;
    let data: Vec<u64> = res["data"].as_array().ok_or("no data array")?.iter().map(|v| v.as_u64().unwrap_or(u64::MAX)).collect();
    decode_with(&data, &types, &mods)
}

fn lexical_class(k: &RKind) -> Option<&'static str> {
    match k {
        RKind::Kw(_) => Some("keyword"),
        RKind::Int(_) | RKind::Hex(_) | RKind::Char(_) => Some("number"),
        RKind::Comment(_) => Some("comment"),
        _ => None,
    }
}

/// Well-formedness on any document. Returns (kind, detail).
pub fn well_formed(text: &str, toks: &[STok]) -> Result<(), (String, String)> {
    let lex: Vec<RTok> = reflex::lex(text);
    let valid = reflex::is_valid(&lex);
    let impl_toks = guarded(|| spl_frontend::lexer::lex(text)).unwrap_or_default();
    let ix = lsptext::LineIndex::new(text);
    let mut prev_end: Option<(u32, u32)> = None;
    for (i, t) in toks.iter().enumerate() {
        if let Some((pl, pe)) = prev_end {
            if (t.line, t.start) < (pl, pe) {
                return Err(("overlap-or-not-increasing".into(), format!("token #{} {:?} starts before the end {:?} of its predecessor", i, t, (pl, pe))));
            }
        }
        let Some(off) = ix.offset(t.line, t.start) else {
            return Err(("position-inside-surrogate-pair".into(), format!("{:?}", t)));
        };
        if ix.position(off) != (t.line, t.start) {
            return Err(("position-outside-line".into(), format!("token #{} {:?}: the line is shorter", i, t)));
        }
        // lexically invalid text (malformed literal, stray character) has no defined reading:
        // there the implementation's own token boundaries (checked for tiling by C06) are used
        let lt: RTok = if valid {
            match lex.iter().find(|l| l.start == off) {
                Some(l) => l.clone(),
                None => return Err(("not-a-lexical-token".into(), format!("token #{} {:?} (byte {}) does not start a lexical token", i, t, off))),
            }
        } else {
            match impl_toks.iter().find(|x| x.range.start == off) {
                Some(x) => RTok {
                    kind: match lex.iter().find(|l| l.start == off && l.end == x.range.end) {
                        Some(l) => l.kind.clone(),
                        None => if matches!(x.token_type, spl_frontend::tokens::TokenType::Comment(_)) { RKind::Comment(String::new()) } else { RKind::Invalid },
                    },
                    start: x.range.start,
                    end: if matches!(x.token_type, spl_frontend::tokens::TokenType::Comment(_)) { x.range.start + text[x.range.clone()].trim_end_matches(['\n', '\r']).len() } else { x.range.end },
                },
                None => return Err(("not-a-lexical-token".into(), format!("token #{} {:?} (byte {}) does not start a token", i, t, off))),
            }
        };
        // (a comment ends in front of its line terminator - LF, CR LF or a CR at the end of the
        // text: a token never reaches into the next line)
        let lexeme = if matches!(lt.kind, RKind::Comment(_)) { text[lt.start..lt.end].trim_end_matches(['\r', '\n']) } else { &text[lt.start..lt.end] };
        let want = lsptext::utf16_len(lexeme);
        let ok = t.len == want;
        if !ok {
            let class = if text[lt.start..lt.end].is_ascii() { "ascii" } else { "non-ascii" };
            return Err((format!("length:{}", class), format!("token #{} {:?}: lexical token {:?} is {} UTF-16 units long", i, t, &text[lt.start..lt.end], want)));
        }
        if let Some(c) = lexical_class(&lt.kind) {
            if t.ty != c {
                return Err(("lexical-class".into(), format!("token #{} {:?}: lexical token {:?} is a {}", i, t, &text[lt.start..lt.end], c)));
            }
        }
        prev_end = Some((t.line, t.start + want));
    }
    // completeness of the lexical classes: every literal token of the implementation's own
    // lexer (decimal, hexadecimal, character - also out-of-range and malformed ones) and every
    // keyword has a semantic token of its class
    for x in &impl_toks {
        use spl_frontend::tokens::TokenType as T;
        let class = match &x.token_type {
            T::Int(_) | T::Hex(_) | T::Char(_) => "number",
            t if t.is_keyword() => "keyword",
            _ => continue,
        };
        let pos = ix.position(x.range.start);
        if !toks.iter().any(|t| (t.line, t.start) == pos && t.ty == class) {
            return Err((format!("missing-{}-token", class), format!("no {} token for {:?} at {:?}", class, &text[x.range.clone()], pos)));
        }
    }
    Ok(())
}

pub fn expected(doc: &Doc) -> Vec<STok> {
    let mut out = vec![];
    let text = doc.text();
    let ix = lsptext::LineIndex::new(text);
    let mut occ = doc.sem.occs.iter().peekable();
    for (k, t) in doc.pr.toks.iter().enumerate() {
        let (s, e) = doc.r.tok_ranges[k];
        let (line, start) = ix.position(s);
        let len = lsptext::utf16_len(&text[s..e]);
        let o = if occ.peek().map(|o| o.tok == k).unwrap_or(false) { occ.next() } else { None };
        let (ty, decl) = match &t.class {
            TokClass::Keyword => ("keyword", false),
            TokClass::Number => ("number", false),
            TokClass::Symbol => continue,
            TokClass::Ident(role) => {
                let ty = match o.and_then(|o| o.kind) {
                    Some(EntKind::Type) => "type",
                    Some(EntKind::Proc) => "function",
                    Some(EntKind::Param) => "parameter",
                    Some(EntKind::Var) => "variable",
                    None => continue,
                };
                (ty, matches!(role, Role::TypeDecl | Role::ProcDecl | Role::ParamDecl | Role::VarDecl))
            }
        };
        out.push(STok { line, start, len, ty: ty.into(), declaration: decl });
    }
    for (_, s, e, _) in &doc.r.comments {
        let (line, start) = ix.position(*s);
        out.push(STok { line, start, len: lsptext::utf16_len(&text[*s..*e]), ty: "comment".into(), declaration: false });
    }
    out.sort_by_key(|t| (t.line, t.start));
    out
}

pub fn eval_doc(doc: &Doc) -> Vec<Failure> {
    eval_doc_after(doc, None)
}

/// `previous`: the text the document had before one edit turned it into `doc`
pub fn eval_doc_after(doc: &Doc, previous: Option<&str>) -> Vec<Failure> {
    let mut fails = eval_doc_inner(doc, previous);
    if let Some(p) = previous {
        for f in fails.iter_mut() {
            f.key = format!("{}:after-edit", f.key);
            f.case["previous_text"] = json!(p);
        }
    }
    fails
}

fn eval_doc_inner(doc: &Doc, previous: Option<&str>) -> Vec<Failure> {
    let got = match request_tokens_after(previous, doc.text()) {
        Ok(g) => g,
        Err(e) => return vec![Failure { key: "semtok:error".into(), case: doc.case(Value::Null), detail: e }],
    };
    let mut fails = vec![];
    if let Err((k, d)) = well_formed(doc.text(), &got) {
        fails.push(Failure { key: format!("semtok:ill-formed:{}", k), case: doc.case(Value::Null), detail: d });
        return fails;
    }
    let want = expected(doc);
    let norm = |v: &[STok]| -> Vec<STok> { v.to_vec() };
    let (g, w) = (norm(&got), norm(&want));
    if g != w {
        // positions of type identifiers that are also names of a local of their procedure
        let like_local: Vec<(u32, u32)> = doc
            .sem
            .occs
            .iter()
            .filter(|o| doc.type_use_named_like_local(o))
            .map(|o| lsptext::position(doc.text(), doc.r.tok_ranges[o.tok].0))
            .collect();
        let case = || doc.case(json!({"expected_tokens": want.iter().map(|t| json!([t.line, t.start, t.len, t.ty, t.declaration])).collect::<Vec<_>>()}));
        let same_geometry = g.len() == w.len() && g.iter().zip(&w).all(|(a, b)| (a.line, a.start, a.len) == (b.line, b.start, b.len));
        if same_geometry {
            // one failure per distinct class of difference (no masking by an earlier one)
            let mut seen: Vec<String> = vec![];
            for (i, (a, b)) in g.iter().zip(&w).enumerate() {
                if a == b {
                    continue;
                }
                let mut kind = if a.ty != b.ty {
                    format!("kind:{}-classified-as-{}", b.ty, a.ty)
                } else {
                    format!("declaration-modifier:{}:{}", b.ty, if b.declaration { "missing" } else { "spurious" })
                };
                if b.ty == "type" && like_local.contains(&(b.line, b.start)) {
                    kind.push_str(":named-like-a-local");
                }
                if seen.contains(&kind) {
                    continue;
                }
                seen.push(kind.clone());
                fails.push(Failure { key: format!("semtok:{}", kind), case: case(), detail: format!("token #{}: got {:?}, expected {:?}", i, a, b) });
            }
        } else {
            let i = g.iter().zip(&w).position(|(a, b)| a != b).unwrap_or(g.len().min(w.len()));
            fails.push(Failure { key: "semtok:token-set".into(), case: case(), detail: format!("token #{}: got {:?}, expected {:?}", i, g.get(i), w.get(i)) });
        }
    }
    fails
}

pub fn run(tier: Tier) -> Report {
    let mut rep = Report::new("C15", tier);
    let items = progs::typed_family(tier);
    let evals = AtomicU64::new(0);
    let mut fails: Vec<Failure> = items
        .par_iter()
        .enumerate()
        .flat_map_iter(|(i, it)| {
            let pr = print_program(&it.program);
            let nvar = if (it.family == "scenario-permutations" || progs::always_included(it.family)) { 7 } else { 2 };
            let vars = doc_variants(&pr, 6);
            let mut out = vec![];
            for k in 0..nvar {
                let (layout, gaps) = vars[(i + k) % vars.len()].clone();
                let doc = Doc::new(it, layout, gaps);
                evals.fetch_add(1, Ordering::Relaxed);
                out.extend(eval_doc(&doc));
            }
            out
        })
        .collect();
    // one edit earlier the document had no / one more comment: a comment line is inserted into
    // (removed from) every gap of the focus declaration of the opened document, then the tokens
    // are requested (comment-only edits must not leave anything stale behind)
    let hist: Vec<Failure> = items
        .par_iter()
        .enumerate()
        .filter(|(i, it)| (it.family == "scenario-permutations" || progs::always_included(it.family)) || i % tier.pick(5, 1) == 0)
        .flat_map_iter(|(i, it)| {
            let pr = print_program(&it.program);
            let mut out: Vec<Failure> = vec![];
            let layout = [Layout::Pretty, Layout::Crlf, Layout::Spaces][i % 3];
            let plain = Doc::new(it, layout, vec![]);
            let gaps = crate::checks::c04::focus_gaps(&pr, it.focus_decl);
            // (large declarations: about 60 gaps)
            let gstep = tier.pick(2, 1).max(gaps.len() / 60);
            for g in gaps.into_iter().step_by(gstep) {
                let with = Doc::new(it, layout, vec![g]);
                let mut fs = vec![];
                if incremental_tree_agrees(plain.text(), with.text()) {
                    evals.fetch_add(1, Ordering::Relaxed);
                    fs.extend(eval_doc_after(&with, Some(plain.text())));
                }
                if incremental_tree_agrees(with.text(), plain.text()) {
                    evals.fetch_add(1, Ordering::Relaxed);
                    fs.extend(eval_doc_after(&plain, Some(with.text())));
                }
                for f in fs {
                    if !out.iter().any(|o| o.key == f.key) {
                        out.push(f);
                    }
                }
            }
            out
        })
        .collect();
    fails.extend(hist);
    // the release binary (legend and capabilities of main.rs) with four kinds of clients
    let bin_items: Vec<&progs::Item> = items.iter().filter(|it| progs::always_included(it.family) || it.family == "scenario-permutations").step_by(tier.pick(40, 4)).collect();
    let bin_fails: Vec<Failure> = bin_items
        .par_iter()
        .enumerate()
        .flat_map_iter(|(i, it)| {
            let mut out = vec![];
            let doc = Doc::new(it, [Layout::Pretty, Layout::Crlf][i % 2], print_program(&it.program).decl_spans.iter().map(|s| s.0).collect());
            let want = expected(&doc);
            for k in 0..4 {
                evals.fetch_add(1, Ordering::Relaxed);
                let caps = legend_client_capabilities(k);
                match request_tokens_binary(doc.text(), caps.clone()) {
                    Err(e) => out.push(Failure { key: "semtok:binary:error".into(), case: doc.case(json!({"client_capabilities": caps})), detail: e }),
                    Ok(got) => {
                        let strip = |v: &[STok]| -> Vec<(u32, u32, String, bool)> { v.iter().map(|t| (t.line, t.start, t.ty.clone(), t.declaration)).collect() };
                        if strip(&got) != strip(&want) {
                            let j = got.iter().zip(&want).position(|(a, b)| (a.line, a.start, &a.ty, a.declaration) != (b.line, b.start, &b.ty, b.declaration)).unwrap_or(0);
                            out.push(Failure {
                                key: "semtok:binary:classification-under-the-announced-legend".into(),
                                case: doc.case(json!({"client_capabilities": caps, "mode": "process"})),
                                detail: format!("client capabilities variant {}: token #{}: got {:?}, expected {:?}", k, j, got.get(j), want.get(j)),
                            });
                        }
                    }
                }
            }
            out
        })
        .collect();
    fails.extend(bin_fails);
    // two programs far beyond the small bounds: 2 500 and 9 000 statements (70 KB / 250 KB, in
    // the token-per-line layout more than 65 536 lines), classification only
    {
        let sizes: &[usize] = if tier == Tier::Quick { &[2500] } else { &[2500, 9000] };
        let huge: Vec<progs::Item> = sizes.iter().map(|n| progs::Item { family: "huge", program: progs::scale_program(40, 40, *n), focus_decl: 0 }).collect();
        // (number of statements of main = the size parameter of the generator)
        let n_of = |it: &progs::Item| -> usize { it.program.decls.iter().map(|d| if let RDecl::Proc { name, body, .. } = d { if name == "main" { body.len().saturating_sub(11) } else { 0 } } else { 0 }).sum() };
        let hf: Vec<Failure> = huge
            .par_iter()
            .flat_map_iter(|it| {
                let mut out = vec![];
                for layout in [Layout::Lines, Layout::Pretty] {
                    let doc = Doc::new(it, layout, vec![]);
                    evals.fetch_add(1, Ordering::Relaxed);
                    out.extend(eval_doc(&doc).into_iter().map(|mut f| {
                        f.key = format!("{}:huge-document", f.key);
                        f.case = json!({"huge": {"statements": n_of(it)}, "layout": format!("{:?}", layout)});
                        f
                    }));
                }
                out
            })
            .collect();
        fails.extend(hf);
    }
    let classified = evals.load(Ordering::Relaxed);
    // well-formedness on arbitrary documents
    let toks = Strings::new(SIGMA_TOK, tier.pick(3, 4));
    let alpha = sigma_char(true);
    let chars = Strings::new(&alpha, tier.pick(3, 4));
    let extra: Vec<String> = vec!["// \u{e9}\u{1f600}\nproc main() { i := '\u{e9}'; } // \u{20ac}".into(), "type A = int; // x\r\n// y\r\nproc p() {}".into(),
        // literals that are out of range or malformed are still numbers
        "proc main() { i := 99999999999; j := 0x1FFFFFFFF; k := 0x; c := 'a; }".into()];
    let all_texts: Vec<String> = (0..toks.count())
        .map(|i| toks.get_joined(i, if i % 3 == 0 { "\n" } else { " " }))
        .chain((0..chars.count()).map(|i| chars.get(i)))
        .chain(extra)
        .collect();
    let wf: Vec<Failure> = all_texts
        .par_iter()
        .filter_map(|t| {
            evals.fetch_add(1, Ordering::Relaxed);
            match request_tokens(t) {
                Err(e) => Some(Failure { key: format!("semtok:error:{}", if e.contains("underflow") { "delta-underflow" } else { "other" }), case: json!({"text": t}), detail: e }),
                Ok(g) => well_formed(t, &g).err().map(|(k, d)| Failure { key: format!("semtok:ill-formed:{}", k), case: json!({"text": t}), detail: d }),
            }
        })
        .collect();
    fails.extend(wf);
    rep.states = evals.load(Ordering::Relaxed);
    rep.transitions = rep.states;
    rep.evaluations = rep.states;
    rep.traces_validated = rep.states;
    rep.distinct_nontrivial = classified;
    rep.rule = "classification: well-typed programs x layouts/comment placements, the decoded token list must equal the list derived from the generator (lexical class for keywords/numbers/comments, binding kind and declaration modifier for identifiers); well-formedness: every token soup (<= k tokens), every character soup (<= k chars, extended alphabet) and non-ASCII/CRLF samples: strictly increasing, non-overlapping, each token coincides with a lexical token of the independent lexer, lengths in UTF-16 units; distinct_nontrivial = documents with a full expected classification".into();
    rep.bounds = json!({"programs": items.len(), "arbitrary_documents": all_texts.len()});
    rep.sample(json!({"text": "type A = int; proc main() { var a: A; }", "expected": "type/declaration for A in line 0, variable/declaration for a"}));
    rep.assumptions = vec!["decoder and expected classification are independent of semantic_tokens.rs; the legend is read from the constants announced in initialize".into()];
    rep.failures = fails;
    rep
}

pub fn replay(case: &Value) -> Vec<Failure> {
    if let Some(n) = case["huge"]["statements"].as_u64() {
        let it = progs::Item { family: "huge", program: progs::scale_program(40, 40, n as usize), focus_decl: 0 };
        let layout = layout_by_name(case["layout"].as_str().unwrap_or("Lines")).unwrap_or(Layout::Lines);
        return eval_doc(&Doc::new(&it, layout, vec![])).into_iter().map(|mut f| { f.case = case.clone(); f }).collect();
    }
    let t = case["text"].as_str().unwrap_or("");
    if case["request"]["mode"] == json!("process") {
        // re-decided against the fresh in-process answer (same classification, announced legend)
        return match (request_tokens_binary(t, case["request"]["client_capabilities"].clone()), request_tokens(t)) {
            (Ok(b), Ok(p)) => {
                let strip = |v: &[STok]| -> Vec<(u32, u32, String, bool)> { v.iter().map(|t| (t.line, t.start, t.ty.clone(), t.declaration)).collect() };
                if strip(&b) != strip(&p) {
                    vec![Failure { key: "semtok:binary:classification-under-the-announced-legend".into(), case: case.clone(), detail: format!("binary {:?}\nin process {:?}", b, p) }]
                } else {
                    vec![]
                }
            }
            (Err(e), _) | (_, Err(e)) => vec![Failure { key: "semtok:binary:error".into(), case: case.clone(), detail: e }],
        };
    }
    match request_tokens_after(case["previous_text"].as_str(), t) {
        Err(e) => vec![Failure { key: "semtok:error".into(), case: case.clone(), detail: e }],
        Ok(g) => {
            let mut out: Vec<Failure> = well_formed(t, &g).err().map(|(k, d)| vec![Failure { key: format!("semtok:ill-formed:{}", k), case: case.clone(), detail: d }]).unwrap_or_default();
            if let Some(exp) = case["request"]["expected_tokens"].as_array() {
                let got: Vec<Value> = g.iter().map(|t| json!([t.line, t.start, t.len, t.ty, t.declaration])).collect();
                let want: Vec<Value> = exp.to_vec();
                if got != want {
                    out.push(Failure { key: "semtok:classification".into(), case: case.clone(), detail: format!("got {:?}\nexpected {:?}", got, want) });
                }
            }
            out
        }
    }
}
