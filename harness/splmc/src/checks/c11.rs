//! C11 — formatting is idempotent, canonical and honours the indentation options.  E-INPUT.
use crate::checks::fmt::*;
use crate::common::*;
use crate::gen::ast::*;
use crate::gen::layout::*;
use crate::progs;
use crate::reflex::{self, RKind};
use rayon::prelude::*;
use serde_json::{json, Value};
use std::sync::atomic::{AtomicU64, Ordering};

fn formatted(text: &str, opts: &[Opt]) -> Result<Vec<(Option<String>, bool)>, String> {
    // (resulting text or None when the edit is malformed, answer was null)
    let a = format_requests(text, opts)?;
    Ok(a.iter()
        .map(|x| match &x.edits {
            None => (Some(text.to_string()), true),
            Some(e) => (e.first().and_then(|e| e["newText"].as_str()).map(|s| s.to_string()), false),
        })
        .collect())
}

/// indentation check of one formatted text against the reference nesting levels
fn check_indentation(out: &str, o: &Opt, pr: &Printed) -> Result<Vec<i64>, String> {
    let unit = o.unit();
    let toks = reflex::lex(out);
    // index (in non-comment numbering) of every token
    let mut nc = 0usize;
    let mut first_on_line: Vec<(usize, Option<usize>)> = vec![]; // (byte start, Some(nc index) | None for comment)
    let mut last_line_start = usize::MAX;
    for t in &toks {
        let line_start = out[..t.start].rfind('\n').map(|i| i + 1).unwrap_or(0);
        let is_comment = matches!(t.kind, RKind::Comment(_));
        if line_start != last_line_start {
            first_on_line.push((line_start, if is_comment { None } else { Some(nc) }));
            last_line_start = line_start;
        }
        if !is_comment {
            nc += 1;
        }
    }
    let mut ks = vec![];
    for (ls, first) in first_on_line {
        let line = &out[ls..];
        let indent: String = line.chars().take_while(|c| *c == ' ' || *c == '\t').collect();
        let k: i64 = if unit.is_empty() {
            if !indent.is_empty() {
                return Err(format!("indentation {:?} although the unit is empty", indent));
            }
            -1
        } else {
            if indent.len() % unit.len() != 0 || indent != unit.repeat(indent.len() / unit.len()) {
                return Err(format!("indentation {:?} is not a multiple of the unit {:?}", indent, unit));
            }
            (indent.len() / unit.len()) as i64
        };
        if let (Some(i), true) = (first, k >= 0) {
            let want = pr.toks.get(i).map(|t| t.level as i64).unwrap_or(-1);
            if want != k {
                return Err(format!(
                    "line starting with token #{} {:?} is indented {} levels, nesting level is {}",
                    i,
                    pr.toks.get(i).map(|t| t.text.clone()),
                    k,
                    want
                ));
            }
        }
        ks.push(k);
    }
    Ok(ks)
}

fn strip_indent(s: &str) -> String {
    s.lines().map(|l| l.trim_start_matches([' ', '\t'])).collect::<Vec<_>>().join("\n")
}

pub fn eval_program(pr: &Printed, with_comment_gap: Option<usize>, opts: &[Opt]) -> Vec<(String, String, String)> {
    let mut out = vec![];
    let gaps: Vec<usize> = with_comment_gap.into_iter().collect();
    let mut canon: Option<String> = None;
    for (li, layout) in ALL_LAYOUTS.iter().enumerate() {
        let r = render_default(pr, *layout, &gaps);
        let use_opts: Vec<Opt> = if li == 0 { opts.to_vec() } else { vec![DEFAULT_OPT] };
        let res = match formatted(&r.text, &use_opts) {
            Ok(r) => r,
            Err(e) => {
                out.push(("error".into(), e, r.text.clone()));
                continue;
            }
        };
        let mut stripped: Option<String> = None;
        for ((t, was_null), o) in res.iter().zip(&use_opts) {
            let Some(t) = t else {
                out.push(("malformed-edit".into(), String::new(), r.text.clone()));
                continue;
            };
            // null exactly when nothing changes
            if !*was_null && *t == r.text {
                out.push(("edit-although-unchanged".into(), format!("{:?}", o), r.text.clone()));
            }
            // idempotence
            match formatted(t, &[*o]) {
                Ok(again) => {
                    if !again[0].1 {
                        out.push((
                            "not-idempotent".into(),
                            format!("options {:?}: second formatting returned an edit: {:?}", o, again[0].0),
                            t.clone(),
                        ));
                    }
                }
                Err(e) => out.push(("error".into(), e, t.clone())),
            }
            // indentation (comment-free programs: the token <-> level mapping is exact)
            match check_indentation(t, o, pr) {
                Ok(_) => {}
                Err(e) => out.push(("indentation".into(), format!("options {:?}: {}\n{:?}", o, e, t), r.text.clone())),
            }
            // option independence of everything but the indentation
            let s = strip_indent(t);
            match &stripped {
                None => stripped = Some(s),
                Some(p) => {
                    if *p != s {
                        out.push(("options-change-more-than-indentation".into(), format!("{:?}: {:?} vs {:?}", o, p, s), r.text.clone()));
                    }
                }
            }
            // canonical: all layouts give the same text (default options)
            if *o == DEFAULT_OPT {
                match &canon {
                    None => canon = Some(t.clone()),
                    Some(c) => {
                        if c != t {
                            out.push(("not-canonical".into(), format!("layout {:?} formats to {:?}, layout Minimal to {:?}", layout, t, c), r.text.clone()));
                        }
                    }
                }
            }
        }
    }
    // perturbations of the canonical text itself: only white space differs, so formatting must
    // give back the canonical text - and must not answer `null` unless nothing changes
    if let Some(c) = &canon {
        // (the last one: the same tokens spread out widely, ten blanks between any two)
        let wide: String = pr.toks.iter().map(|t| t.text.clone()).collect::<Vec<_>>().join("          ");
        let mut variants: Vec<String> = vec![c.trim_end_matches('\n').to_string(), format!("{}\n", c), format!("{}  ", c), format!("\n{}", c), format!("{}\t\n", c.trim_end_matches('\n'))];
        if let Some(i) = c.find(' ') {
            let mut v = c.clone();
            v.insert(i, ' ');
            variants.push(v);
        }
        if with_comment_gap.is_none() {
            variants.push(wide);
        }
        for v in variants {
            match formatted(&v, &[DEFAULT_OPT]) {
                Ok(r) => {
                    let (t, was_null) = &r[0];
                    if t.as_deref() != Some(c.as_str()) {
                        out.push((
                            if *was_null { "null-although-not-canonical".into() } else { "not-canonical".into() },
                            format!("a white-space variant of the canonical text formats to {:?} (null answer: {}), canonical text {:?}", t, was_null, c),
                            v.clone(),
                        ));
                    }
                }
                Err(e) => out.push(("error".into(), e, v.clone())),
            }
        }
    }
    out
}

pub fn run(tier: Tier) -> Report {
    let mut rep = Report::new("C11", tier);
    let items = progs::syntactic_family(tier);
    let evals = AtomicU64::new(0);
    let opts = all_opts();
    let step = tier.pick(4, 1);
    let fails: Vec<Failure> = items
        .par_iter()
        .enumerate()
        .filter(|(i, it)| i % step == 0 || progs::always_included(it.family) || it.family == "stmt@else-chains")
        .flat_map_iter(|(i, it)| {
            let pr = print_program(&it.program);
            let mut out = vec![];
            let o: Vec<Opt> = if i % 3 == 0 { opts.clone() } else { vec![DEFAULT_OPT, Opt { tab_size: 1, insert_spaces: false }, Opt { tab_size: 2, insert_spaces: true }] };
            // without comments, and with one leading comment in front of the focus declaration
            let lead = pr.decl_spans.get(it.focus_decl).map(|s| s.0);
            for g in [None, lead] {
                evals.fetch_add((ALL_LAYOUTS.len() - 1 + o.len()) as u64, Ordering::Relaxed);
                for (k, d, text) in eval_program(&pr, g, &o) {
                    if out.len() < 3 {
                        out.push(Failure { key: format!("format:{}", k), case: json!({"text": text, "family": it.family, "tokens": pr.toks.iter().map(|t| (t.text.clone(), t.level)).collect::<Vec<_>>()}), detail: d });
                    }
                }
            }
            // a comment in every single gap of the focus declaration (also inside parameters,
            // types, expressions): whatever the formatter does with it, formatting its own
            // output again must not change anything
            if i % (4 * step) == 0 || progs::always_included(it.family) {
                for g in crate::checks::c04::focus_gaps(&pr, it.focus_decl) {
                    let r = render(&pr.toks, Layout::Spaces, &[g], &|g| format!(" c{}", g));
                    evals.fetch_add(2, Ordering::Relaxed);
                    let first = match formatted(&r.text, &[DEFAULT_OPT]) {
                        Ok(f) => f,
                        Err(e) => {
                            out.push(Failure { key: "format:error".into(), case: json!({"text": r.text, "family": it.family}), detail: e });
                            continue;
                        }
                    };
                    let Some(t) = &first[0].0 else { continue };
                    match formatted(t, &[DEFAULT_OPT]) {
                        Ok(again) if !again[0].1 => {
                            let place = owner_key(&pr, g);
                            if !out.iter().any(|f: &Failure| f.key.ends_with(&place)) {
                                out.push(Failure {
                                    key: format!("format:not-idempotent:comment:{}", place),
                                    case: json!({"text": t, "family": it.family, "source": r.text}),
                                    detail: format!("comment in gap {}: the formatted text {:?} is formatted again to {:?}", g, t, again[0].0),
                                });
                            }
                        }
                        Ok(_) => {}
                        Err(e) => out.push(Failure { key: "format:error".into(), case: json!({"text": t, "family": it.family}), detail: e }),
                    }
                }
            }
            out
        })
        .collect();
    rep.states = items.len() as u64;
    rep.transitions = evals.load(Ordering::Relaxed);
    rep.evaluations = rep.transitions;
    rep.traces_validated = rep.transitions;
    rep.distinct_nontrivial = items.len() as u64;
    rep.rule = "generated valid programs x 6 layouts (canonical form) x formatting options (11 values for every 3rd program, 3 values otherwise) x {no comment, leading comment}; oracles: second formatting returns null, all layouts format to the same text, every line is indented by k units made only of the unit, k = reference nesting level of the line's first token, everything but indentation is option independent, null exactly when unchanged".into();
    rep.bounds = json!({"derivations": items.len(), "options": opts.iter().map(|o| o.json()).collect::<Vec<_>>()});
    rep.sample(json!({"text": "proc main(){if(i<1)if(i<1);else{;}}", "levels": "if-branch +1, else-if chain +0"}));
    rep.assumptions = vec!["nesting level by construction from the generator (bodies, blocks, brace-less branches; else-if chains stay on the level of the first if)".into()];
    rep.failures = fails;
    rep
}

pub fn replay(case: &Value) -> Vec<Failure> {
    // replays idempotence and null-iff-unchanged on the stored text for all options
    let text = case["text"].as_str().unwrap_or("");
    let mut out = vec![];
    for o in all_opts() {
        match formatted(text, &[o]) {
            Err(e) => out.push(Failure { key: "format:error".into(), case: case.clone(), detail: e }),
            Ok(r) => {
                if let (Some(t), _) = &r[0] {
                    if let Ok(again) = formatted(t, &[o]) {
                        if !again[0].1 {
                            out.push(Failure { key: "format:not-idempotent".into(), case: case.clone(), detail: format!("{:?}", o) });
                        }
                    }
                    if !o.unit().is_empty() {
                        for line in t.lines() {
                            let indent: String = line.chars().take_while(|c| *c == ' ' || *c == '\t').collect();
                            let u = o.unit();
                            if indent.len() % u.len() != 0 || indent != u.repeat(indent.len() / u.len()) {
                                out.push(Failure { key: "format:indentation".into(), case: case.clone(), detail: format!("{:?} line {:?}", o, line) });
                                break;
                            }
                        }
                    }
                }
            }
        }
    }
    out
}
