//! Shared machinery of the navigation checks C12-C16: a well-typed program, its reference
//! semantics, one rendering, and position helpers.
use crate::gen::ast::*;
use crate::gen::layout::*;
use crate::gen::refsem::{self, Sem};
use crate::lsptext;
use crate::progs::Item;
use serde_json::{json, Value};

pub struct Doc<'a> {
    pub item: &'a Item,
    pub pr: Printed,
    pub sem: Sem,
    pub r: Rendered,
    pub layout: Layout,
    pub gaps: Vec<usize>,
    /// line table of the text (for fast position queries on large documents)
    pub lines: Vec<(usize, usize)>,
}

/// layout / comment variants used by the navigation checks
pub fn doc_variants(pr: &Printed, n: usize) -> Vec<(Layout, Vec<usize>)> {
    let n = n + 1; // + the lone-CR layout
    let decl_starts: Vec<usize> = pr.decl_spans.iter().map(|s| s.0).collect();
    let all: Vec<usize> = (0..=pr.toks.len()).collect();
    let mut v = vec![
        (Layout::Spaces, vec![]),
        (Layout::Pretty, decl_starts.clone()), // doc comments on every declaration
        (Layout::Crlf, all.clone()),           // a comment in every gap, CRLF line ends
        (Layout::Minimal, vec![]),
        (Layout::Lines, decl_starts),
        (Layout::Tabs, all.into_iter().step_by(2).collect()),
        (Layout::Cr, vec![]),
    ];
    v.truncate(n);
    v
}

impl<'a> Doc<'a> {
    /// true for a type identifier whose name is also the name of a parameter / variable of the
    /// enclosing procedure (the implementation resolves identifiers by name only; finding key)
    pub fn type_use_named_like_local(&self, o: &crate::gen::refsem::Occ) -> bool {
        o.role == Role::TypeUse && self.sem.locals.get(o.decl).map(|l| l.contains_key(&o.name)).unwrap_or(false)
    }
    pub fn new(item: &'a Item, layout: Layout, gaps: Vec<usize>) -> Self {
        let pr = print_program(&item.program);
        let sem = refsem::analyze(&item.program);
        // the token-per-line variant documents every declaration with two comment lines
        let two_lines = layout == Layout::Lines;
        // the pretty variant's comments contain characters that Unicode calls line separators
        // (LSP does not) and one outside the BMP
        let exotic = layout == Layout::Pretty;
        let r = render(&pr.toks, layout, &gaps, &|g| {
            if two_lines {
                format!(" doc{}$\n second{}$", g, g)
            } else if exotic {
                format!(" doc{}, (a,b)\u{2028}x\u{85}y\u{2029}\u{1f600}$", g)
            } else {
                format!(" doc{}$", g)
            }
        });
        let lines = lsptext::lines(&r.text);
        Doc { item, pr, sem, r, layout, gaps, lines }
    }
    pub fn text(&self) -> &str {
        &self.r.text
    }
    /// byte offset -> LSP position (same model as `lsptext::position`)
    pub fn pos(&self, off: usize) -> (u32, u32) {
        let li = match self.lines.binary_search_by(|(s, _)| s.cmp(&off)) {
            Ok(i) => i,
            Err(i) => i.saturating_sub(1),
        };
        let (s, e) = self.lines[li];
        let col: usize = self.r.text[s..off.min(e)].chars().map(|c| c.len_utf16()).sum();
        (li as u32, col as u32)
    }
    /// LSP range of token k as JSON
    pub fn tok_range(&self, k: usize) -> Value {
        let (s, e) = self.r.tok_ranges[k];
        let (l1, c1) = self.pos(s);
        let (l2, c2) = self.pos(e);
        json!({"start": {"line": l1, "character": c1}, "end": {"line": l2, "character": c2}})
    }
    /// positions (line, char) of every column inside token k: first, interior, last
    pub fn tok_positions(&self, k: usize) -> Vec<(u32, u32)> {
        let (s, e) = self.r.tok_ranges[k];
        // (identifiers of more than 16 bytes: the first and last four columns and the middle)
        let offs: Vec<usize> = if e - s > 16 { (s..s + 4).chain([s + (e - s) / 2]).chain(e - 4..e).collect() } else { (s..e).collect() };
        offs.into_iter().filter(|o| self.r.text.is_char_boundary(*o)).map(|o| self.pos(o)).collect()
    }
    /// one position inside the white space in front of token k (None when there is none)
    pub fn gap_position(&self, k: usize) -> Option<(u32, u32)> {
        let prev_end = if k == 0 { 0 } else { self.r.tok_ranges[k - 1].1 };
        let start = self.r.tok_ranges.get(k).map(|r| r.0).unwrap_or(self.r.text.len());
        // only pure white space gaps (no comment inside)
        let gap = &self.r.text[prev_end..start];
        if gap.is_empty() || !gap.chars().all(|c| c == ' ' || c == '\t') {
            return None;
        }
        Some(self.pos(prev_end + gap.len() / 2))
    }
    pub fn case(&self, extra: Value) -> Value {
        json!({"text": self.r.text, "family": self.item.family, "layout": format!("{:?}", self.layout), "request": extra})
    }
    /// placement of a use relative to its declaration (finding key vocabulary)
    pub fn placement(&self, use_tok: usize, decl_tok: usize) -> &'static str {
        let du = self.pr.toks[use_tok].decl;
        let dd = self.pr.toks[decl_tok].decl;
        if du == dd {
            "same-declaration"
        } else if dd < du {
            "earlier-declaration"
        } else {
            "later-declaration"
        }
    }
}
