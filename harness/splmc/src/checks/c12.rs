//! C12 — go-to declaration / definition / type definition / implementation hit the right name.
use crate::checks::nav::*;
use crate::common::*;
use crate::gen::ast::*;
use crate::gen::refsem::{EntKind, Entity, Target, Ty};
use crate::progs;
use crate::session::*;
use rayon::prelude::*;
use serde_json::{json, Value};
use std::sync::atomic::{AtomicU64, Ordering};

pub const METHODS: &[&str] = &[
    "textDocument/declaration",
    "textDocument/definition",
    "textDocument/typeDefinition",
    "textDocument/implementation",
];

/// the type declaration (name token) whose type expression created array type `id`
fn creator_decl(doc: &Doc, id: usize) -> Option<usize> {
    let d = doc.pr.toks[id].decl;
    match &doc.item.program.decls[d] {
        RDecl::Type { .. } => Some(doc.pr.decl_spans[d].0 + 1),
        _ => None, // anonymous array type inside a parameter / variable declaration
    }
}

fn var_type(doc: &Doc, o: &crate::gen::refsem::Occ) -> Option<Ty> {
    match o.target {
        Target::Decl(t) => {
            let d = doc.pr.toks[t].decl;
            doc.sem.locals[d].values().find(|l| l.name_tok == t).and_then(|l| l.ty.clone())
        }
        _ => None,
    }
}

/// expected target token per method for the identifier occurrence
pub fn expected(doc: &Doc, o: &crate::gen::refsem::Occ, method: &str) -> Option<usize> {
    let decl_target = match o.target {
        Target::Decl(t) => Some(t),
        _ => None,
    };
    match method {
        "textDocument/declaration" | "textDocument/definition" => decl_target,
        "textDocument/implementation" => {
            if o.kind == Some(EntKind::Proc) {
                decl_target
            } else {
                None
            }
        }
        "textDocument/typeDefinition" => match o.kind {
            Some(EntKind::Type) => decl_target,
            Some(EntKind::Param) | Some(EntKind::Var) => match var_type(doc, o) {
                Some(Ty::Array { id, .. }) => creator_decl(doc, id),
                _ => None,
            },
            _ => None,
        },
        _ => None,
    }
}

fn role_name(r: &Role) -> &'static str {
    match r {
        Role::TypeDecl => "type-declaration",
        Role::ProcDecl => "proc-declaration",
        Role::ParamDecl => "param-declaration",
        Role::VarDecl => "var-declaration",
        Role::TypeUse => "type-use",
        Role::ProcUse => "call",
        Role::VarUse => "variable-use",
    }
}

pub fn eval_doc(doc: &Doc) -> (Vec<Failure>, u64) {
    let mut s = Session::new(false);
    s.open(URI, doc.text());
    // (id, method, token, Option<expected token>, position)
    let mut reqs: Vec<(i64, &str, usize, Option<usize>, (u32, u32), String)> = vec![];
    for o in &doc.sem.occs {
        for (l, c) in doc.tok_positions(o.tok) {
            for m in METHODS {
                let exp = expected(doc, o, m);
                let place = match (exp, &o.target) {
                    (Some(t), _) => doc.placement(o.tok, t),
                    (None, Target::Builtin) => "builtin",
                    (None, _) => "no-target",
                };
                let key = format!(
                    "{}:{}:{}{}",
                    m.trim_start_matches("textDocument/"),
                    role_name(&o.role),
                    place,
                    if doc.type_use_named_like_local(o) { ":named-like-a-local" } else { "" }
                );
                reqs.push((s.pos_request(m, URI, l, c), m, o.tok, exp, (l, c), key));
            }
        }
    }
    // non-identifier tokens and white space: no location
    for (k, t) in doc.pr.toks.iter().enumerate() {
        if !matches!(t.class, TokClass::Ident(_)) {
            let (l, c) = doc.tok_positions(k)[0];
            for m in METHODS {
                reqs.push((s.pos_request(m, URI, l, c), m, k, None, (l, c), format!("{}:non-identifier", m.trim_start_matches("textDocument/"))));
            }
        }
        if let Some((l, c)) = doc.gap_position(k) {
            for m in METHODS {
                reqs.push((s.pos_request(m, URI, l, c), m, k, None, (l, c), format!("{}:white-space", m.trim_start_matches("textDocument/"))));
            }
        }
    }
    let n = reqs.len() as u64;
    let o = s.run();
    let mut fails = vec![];
    if let Some(e) = o.error.clone().or(o.frame_error.clone()) {
        fails.push(Failure { key: "goto:error".into(), case: doc.case(Value::Null), detail: e });
        return (fails, n);
    }
    let resp = o.responses();
    for (id, m, tok, exp, pos, key) in reqs {
        let want = match exp {
            Some(t) => json!({"uri": URI, "range": doc.tok_range(t)}),
            None => Value::Null,
        };
        let got = match resp.get(&id) {
            Some(r) if r.get("result").is_some() => r["result"].clone(),
            other => json!({"unexpected": format!("{:?}", other)}),
        };
        if got != want && fails.len() < 60 {
            fails.push(Failure {
                key: format!("goto:{}", key),
                case: doc.case(json!({"method": m, "line": pos.0, "character": pos.1, "expected": want})),
                detail: format!("cursor on token #{} {:?}: got {}, expected {}", tok, doc.pr.toks[tok].text, got, want),
            });
        }
    }
    (fails, n)
}

pub fn run(tier: Tier) -> Report {
    let mut rep = Report::new("C12", tier);
    let items = progs::typed_family(tier);
    let calls = AtomicU64::new(0);
    let docs = AtomicU64::new(0);
    let fails: Vec<Failure> = items
        .par_iter()
        .enumerate()
        .flat_map_iter(|(i, it)| {
            let pr = print_program(&it.program);
            let nvar = if (it.family == "scenario-permutations" || progs::always_included(it.family)) { 7 } else { 1 + (i % 3 == 0) as usize };
            let mut out = vec![];
            let vars = doc_variants(&pr, 6);
            for k in 0..nvar {
                let (layout, gaps) = vars[(i + k) % vars.len()].clone();
                let doc = Doc::new(it, layout, gaps);
                let (f, n) = eval_doc(&doc);
                calls.fetch_add(n, Ordering::Relaxed);
                docs.fetch_add(1, Ordering::Relaxed);
                out.extend(f);
            }
            out
        })
        .collect();
    rep.states = docs.load(Ordering::Relaxed);
    rep.transitions = calls.load(Ordering::Relaxed);
    rep.evaluations = rep.transitions;
    rep.traces_validated = rep.transitions;
    rep.distinct_nontrivial = items.len() as u64;
    rep.rule = "well-typed programs (all declaration orders of the binding scenarios incl. shadowing, alias types, anonymous array types, builtins; every error-free member of the expression/statement/type families) x layouts/comment placements x every identifier occurrence x every column inside it x 4 goto requests, plus every non-identifier token and white-space gap; expected target = binding computed by the reference scoping rules on the generating tree; distinct_nontrivial = distinct programs".into();
    rep.bounds = json!({"programs": items.len(), "documents": rep.states});
    rep.sample(json!({"text": "type A = array [2] of int; proc main() { var a: A; a[0] := 1; }", "request": "typeDefinition on `a` -> name of type A"}));
    rep.assumptions = vec!["bindings and types from refsem.rs (independent implementation of SPL scoping and name equivalence)".into()];
    rep.failures = fails;
    rep
}

pub fn replay(case: &Value) -> Vec<Failure> {
    let text = case["text"].as_str().unwrap_or("");
    let rq = &case["request"];
    if !rq.is_object() {
        return vec![];
    }
    let mut s = Session::new(false);
    s.open(URI, text);
    let id = s.pos_request(rq["method"].as_str().unwrap_or(""), URI, rq["line"].as_u64().unwrap_or(0) as u32, rq["character"].as_u64().unwrap_or(0) as u32);
    let o = s.run();
    let got = o.responses().get(&id).and_then(|r| r.get("result").cloned()).unwrap_or(json!("no result"));
    if got == rq["expected"] {
        vec![]
    } else {
        vec![Failure { key: "goto".into(), case: case.clone(), detail: format!("got {}, expected {}", got, rq["expected"]) }]
    }
}
