//! C07 — incremental lexing yields the batch token stream and an exact change window.
//! E-HIST: inductive single-step sweep over all (text, edit) pairs of a bounded alphabet plus a
//! breadth-first search over edit histories that feeds every `update` result into the next.
use crate::common::*;
use crate::soup::*;
use rayon::prelude::*;
use serde_json::{json, Value};
use spl_frontend::lexer;
use spl_frontend::tokens::{Token, TokenChange, TokenType};
use spl_frontend::TextChange;
use std::collections::{HashSet, VecDeque};
use std::sync::atomic::{AtomicU64, Ordering};

fn shift_tok(t: &Token, delta: isize) -> Token {
    let sh = |x: usize| (x as isize + delta) as usize;
    Token {
        token_type: t.token_type.clone(),
        range: sh(t.range.start)..sh(t.range.end),
        errors: t
            .errors
            .iter()
            .map(|e| spl_frontend::error::SplError(sh(e.0.start)..sh(e.0.end), e.1.clone()))
            .collect(),
    }
}

/// Evaluate one (text, edit) pair on already-lexed `old` tokens. Returns (failure-kind, detail).
pub fn eval_step(
    old_text: &str,
    old: &[Token],
    start: usize,
    end: usize,
    repl: &str,
) -> Result<(Vec<Token>, bool), (String, String)> {
    let mut new_text = old_text.to_string();
    new_text.replace_range(start..end, repl);
    let change = TextChange {
        range: start..end,
        text: repl.to_string(),
    };
    let oldv = old.to_vec();
    let r = guarded(|| {
        let fresh = lexer::lex(&new_text);
        let (inc, tc) = lexer::update(&new_text, oldv, &change);
        (fresh, inc, tc)
    });
    let (fresh, inc, tc) = match r {
        Ok(x) => x,
        Err(p) => return Err(("panic".into(), p)),
    };
    if inc != fresh {
        return Err((
            "tokens-differ".into(),
            format!("update={:?}\n fresh={:?}", brief(&inc), brief(&fresh)),
        ));
    }
    // window truthfulness (Eof excluded, as in the code: ranges index the Eof-less vectors)
    let TokenChange {
        deletion_range: d,
        insertion_len: n,
    } = tc.clone();
    let old_n = old.len() - 1;
    let new_n = inc.len() - 1;
    let delta = repl.len() as isize - (end - start) as isize;
    let ok_shape = d.start <= d.end && d.end <= old_n && new_n + d.len() == old_n + n;
    let mut ok = ok_shape;
    if ok {
        ok = inc[..d.start] == old[..d.start];
    }
    if ok {
        let tail_new = &inc[d.start + n..new_n];
        let tail_old = &old[d.end..old_n];
        ok = tail_new.len() == tail_old.len()
            && tail_new
                .iter()
                .zip(tail_old)
                .all(|(a, b)| *a == shift_tok(b, delta));
    }
    if !ok {
        return Err((
            "window-untruthful".into(),
            format!("window={:?} old={:?} new={:?}", tc, brief(old), brief(&inc)),
        ));
    }
    let nontrivial = d.len() != n || inc[d.start..d.start + n] != old[d.clone()];
    Ok((inc, nontrivial))
}

fn brief(t: &[Token]) -> Vec<String> {
    t.iter()
        .map(|t| {
            format!(
                "{:?}@{}..{}{}",
                t.token_type,
                t.range.start,
                t.range.end,
                if t.errors.is_empty() {
                    String::new()
                } else {
                    format!("!{:?}", t.errors.iter().map(|e| e.0.clone()).collect::<Vec<_>>())
                }
            )
        })
        .collect()
}

fn case_json(text: &str, s: usize, e: usize, r: &str) -> Value {
    json!({"text": text, "start": s, "end": e, "replacement": r})
}

fn classify(text: &str, s: usize, e: usize, r: &str, kind: &str) -> String {
    // finding key in the vocabulary of the input: failure kind only (no finding is expected
    // on a correct lexer; a listed finding would be refined by input class)
    let _ = (text, s, e, r);
    format!("lexupdate:{}", kind)
}

struct Family {
    name: &'static str,
    alpha: Vec<&'static str>,
    max_text: usize,
    max_repl: usize,
    sep: &'static str,
}

pub fn run(tier: Tier) -> Report {
    let mut rep = Report::new("C07", tier);
    let thorough = tier == Tier::Thorough;
    let fams = vec![
        Family {
            name: "char-soup",
            alpha: sigma_char(false),
            max_text: tier.pick(4, 5),
            max_repl: 1,
            sep: "",
        },
        Family {
            name: "char-soup-wide-repl",
            alpha: sigma_char(false),
            max_text: tier.pick(3, 4),
            max_repl: 2,
            sep: "",
        },
        Family {
            name: "char-soup-widest-repl",
            alpha: sigma_char(false),
            max_text: tier.pick(2, 3),
            max_repl: 3,
            sep: "",
        },
        Family {
            name: "char-soup-extended-alphabet",
            alpha: sigma_char(true),
            max_text: tier.pick(3, 4),
            max_repl: tier.pick(1, 2),
            sep: "",
        },
        Family {
            name: "char-soup-space-like-characters",
            alpha: SIGMA_CHAR_SPACE_LIKE.to_vec(),
            max_text: tier.pick(3, 4),
            max_repl: 1,
            sep: "",
        },
        Family {
            // literals that carry lexical errors with non-empty ranges (overflow) or positions
            name: "error-carrying-literals",
            alpha: vec!["a", ";", "99999999999", "0xFFFFFFFFF", "0x", "'", "'a", "1"],
            max_text: tier.pick(3, 4),
            max_repl: 1,
            sep: " ",
        },
        Family {
            name: "token-soup",
            alpha: SIGMA_TOK.to_vec(),
            max_text: tier.pick(2, 3),
            max_repl: 1,
            sep: " ",
        },
    ];
    let evals = AtomicU64::new(0);
    let nontriv = AtomicU64::new(0);
    let states = AtomicU64::new(0);
    let mut all_fail: Vec<Failure> = vec![];
    let mut fam_stats = vec![];
    for fam in &fams {
        let texts = Strings::new(&fam.alpha, fam.max_text);
        let repls = Strings::new(&fam.alpha, fam.max_repl);
        let repl_strs: Vec<String> = (0..repls.count()).map(|i| repls.get_joined(i, fam.sep)).collect();
        let e0 = evals.load(Ordering::Relaxed);
        let fails: Vec<Failure> = (0..texts.count())
            .into_par_iter()
            .flat_map_iter(|ti| {
                let text = texts.get_joined(ti, fam.sep);
                let mut out = vec![];
                let old = match guarded(|| lexer::lex(&text)) {
                    Ok(o) => o,
                    Err(p) => {
                        out.push(Failure {
                            key: "lex:panic".into(),
                            case: json!({"text": text}),
                            detail: p,
                        });
                        return out;
                    }
                };
                states.fetch_add(1, Ordering::Relaxed);
                let bounds = char_boundaries(&text);
                let mut local_evals = 0u64;
                let mut local_nt = 0u64;
                for (bi, &s) in bounds.iter().enumerate() {
                    for &e in &bounds[bi..] {
                        for r in &repl_strs {
                            if s == e && r.is_empty() {
                                continue;
                            }
                            local_evals += 1;
                            match eval_step(&text, &old, s, e, r) {
                                Ok((_, nt)) => {
                                    if nt {
                                        local_nt += 1
                                    }
                                }
                                Err((kind, detail)) => {
                                    if out.len() < 50 {
                                        out.push(Failure {
                                            key: classify(&text, s, e, r, &kind),
                                            case: case_json(&text, s, e, r),
                                            detail,
                                        });
                                    }
                                }
                            }
                        }
                    }
                }
                evals.fetch_add(local_evals, Ordering::Relaxed);
                nontriv.fetch_add(local_nt, Ordering::Relaxed);
                out
            })
            .collect();
        fam_stats.push(json!({
            "family": fam.name, "alphabet": fam.alpha, "max_text_symbols": fam.max_text,
            "max_replacement_symbols": fam.max_repl, "texts": texts.count(),
            "cases": evals.load(Ordering::Relaxed) - e0, "failing": fails.len()
        }));
        all_fail.extend(fails.into_iter().take(MAX_KEPT_FAILURES));
    }

    // beyond the small bounds: long tokens, many tokens, long replacements (hand-picked edits)
    {
        let cases = scale_cases();
        let e0 = evals.load(Ordering::Relaxed);
        let sf: Vec<Failure> = cases
            .par_iter()
            .filter_map(|(t, s, e, r)| {
                evals.fetch_add(1, Ordering::Relaxed);
                let old = match guarded(|| lexer::lex(t)) {
                    Ok(o) => o,
                    Err(p) => return Some(Failure { key: "lex:panic".into(), case: case_json(t, *s, *e, r), detail: p }),
                };
                match eval_step(t, &old, *s, *e, r) {
                    Ok((_, nt)) => {
                        if nt {
                            nontriv.fetch_add(1, Ordering::Relaxed);
                        }
                        None
                    }
                    Err((kind, detail)) => Some(Failure { key: format!("{}:large-text", classify(t, *s, *e, r, &kind)), case: case_json(t, *s, *e, r), detail: truncate(&detail, 600) }),
                }
            })
            .collect();
        fam_stats.push(json!({"family": "beyond-the-small-bounds", "cases": evals.load(Ordering::Relaxed) - e0, "failing": sf.len()}));
        all_fail.extend(sf.into_iter().take(MAX_KEPT_FAILURES));
    }
    // chained histories: BFS, every update result is fed into the next update (never re-lexed)
    let (hs, ht, hfail) = histories(tier);
    all_fail.extend(hfail);

    rep.states = states.load(Ordering::Relaxed) + hs;
    rep.transitions = evals.load(Ordering::Relaxed) + ht;
    rep.evaluations = rep.transitions;
    rep.traces_validated = rep.transitions;
    rep.distinct_nontrivial = nontriv.load(Ordering::Relaxed);
    rep.rule = "every text over the alphabet up to the length bound x every byte range on char boundaries x every replacement string up to its bound, each case enumerated once (distinct by construction); non-trivial = the reported window changes the token vector (tokens deleted/inserted differ from the old ones)".into();
    rep.bounds = json!({"families": fam_stats, "history_bfs": {"states": hs, "transitions": ht, "depth": tier.pick(3,4)}});
    rep.sample(case_json("a/", 2, 2, "/"));
    rep.sample(case_json("0 x", 1, 2, ""));
    rep.sample(case_json("'", 1, 1, "a"));
    rep.assumptions = vec![
        "oracle for the token vector is lexer::lex on the new text (lex itself is checked against an independent lexer by C06)".into(),
        "bounded: texts/replacements longer than the stated symbol counts are not covered; no sampling beyond the bound".into(),
    ];
    let _ = thorough;
    rep.failures = all_fail;
    rep
}

/// Texts beyond the small bounds with hand-picked edits: tokens longer than 1 024 bytes (a
/// comment line, an identifier), more than 64 / 128 tokens, a replacement longer than 1 024 bytes
fn scale_cases() -> Vec<(String, usize, usize, String)> {
    let mut v = vec![];
    let long_comment = format!("a := 1; // {}\nb := 2;", "c".repeat(1500));
    let long_ident = format!("a {} b", "x".repeat(1500));
    let long_call = format!("  printi({});\n", "1 + ".repeat(330) + "1");
    for t in [&long_comment, &long_ident, &long_call] {
        let n = t.len();
        for p in [0usize, 1, 2, 8, 9, 10, 11, 12, 1020, 1023, 1024, 1025, 1030, n - 2, n - 1, n] {
            if p > n || !t.is_char_boundary(p) {
                continue;
            }
            for r in ["x", "//", " ", "'"] {
                v.push((t.clone(), p, p, r.to_string()));
            }
            if p < n && t.is_char_boundary(p + 1) {
                v.push((t.clone(), p, p + 1, String::new()));
            }
        }
    }
    // 140 one-letter tokens separated by blanks: an edit directly behind / in front of every token
    let many: String = "i ".repeat(140);
    for k in 0..140 {
        v.push((many.clone(), 2 * k + 1, 2 * k + 1, "0".to_string()));
        v.push((many.clone(), 2 * k, 2 * k, "f".to_string()));
        v.push((many.clone(), 2 * k + 1, 2 * k + 2, String::new()));
    }
    // long replacement texts
    let big = "proc p() { i := 1; }\n".repeat(60);
    for t in ["", "a b", "proc main() { }"] {
        for p in 0..=t.len() {
            v.push((t.to_string(), p, p, big.clone()));
            v.push((t.to_string(), 0, p, big.clone()));
        }
    }
    v
}

fn histories(tier: Tier) -> (u64, u64, Vec<Failure>) {
    let alpha = sigma_char(false);
    let depth = tier.pick(3, 4);
    let max_len = tier.pick(3, 4);
    let starts = Strings::new(&alpha, tier.pick(1, 2));
    let repls: Vec<String> = std::iter::once(String::new())
        .chain(alpha.iter().map(|s| s.to_string()))
        .collect();
    let mut seen: HashSet<(String, Vec<String>)> = HashSet::new();
    let mut queue: VecDeque<(String, Vec<Token>, usize, Vec<Value>)> = VecDeque::new();
    let fp = |t: &[Token]| -> Vec<String> { brief(t) };
    for i in 0..starts.count() {
        let t = starts.get(i);
        let toks = lexer::lex(&t);
        if seen.insert((t.clone(), fp(&toks))) {
            queue.push_back((t, toks, 0, vec![]));
        }
    }
    let mut transitions = 0u64;
    let mut fails = vec![];
    while let Some((text, toks, d, hist)) = queue.pop_front() {
        if d >= depth {
            continue;
        }
        let bounds = char_boundaries(&text);
        for (bi, &s) in bounds.iter().enumerate() {
            for &e in &bounds[bi..] {
                for r in &repls {
                    if s == e && r.is_empty() {
                        continue;
                    }
                    let new_chars = text.chars().count() - text[s..e].chars().count() + r.chars().count();
                    if new_chars > max_len {
                        continue;
                    }
                    transitions += 1;
                    match eval_step(&text, &toks, s, e, r) {
                        Ok((inc, _)) => {
                            let mut nt = text.clone();
                            nt.replace_range(s..e, r);
                            if seen.insert((nt.clone(), fp(&inc))) {
                                let mut h = hist.clone();
                                h.push(case_json(&text, s, e, r));
                                queue.push_back((nt, inc, d + 1, h));
                            }
                        }
                        Err((kind, detail)) => {
                            if fails.len() < 200 {
                                let mut h = hist.clone();
                                h.push(case_json(&text, s, e, r));
                                fails.push(Failure {
                                    key: format!("lexupdate-history:{}", kind),
                                    case: json!({"history": h}),
                                    detail,
                                });
                            }
                        }
                    }
                }
            }
        }
    }
    (seen.len() as u64, transitions, fails)
}

/// Replay one stored case on the current tree.
pub fn replay(case: &Value) -> Vec<Failure> {
    let mut out = vec![];
    let steps: Vec<Value> = if let Some(h) = case.get("history") {
        h.as_array().cloned().unwrap_or_default()
    } else {
        vec![case.clone()]
    };
    // a history is replayed by feeding update results forward from the first text
    let first = steps[0]["text"].as_str().unwrap_or("").to_string();
    let mut text = first.clone();
    let mut toks = match guarded(|| lexer::lex(&first)) {
        Ok(t) => t,
        Err(p) => {
            return vec![Failure { key: "lex:panic".into(), case: case.clone(), detail: p }]
        }
    };
    for st in &steps {
        let s = st["start"].as_u64().unwrap() as usize;
        let e = st["end"].as_u64().unwrap() as usize;
        let r = st["replacement"].as_str().unwrap();
        match eval_step(&text, &toks, s, e, r) {
            Ok((inc, _)) => {
                text.replace_range(s..e, r);
                toks = inc;
            }
            Err((kind, detail)) => {
                out.push(Failure {
                    key: format!("lexupdate:{}", kind),
                    case: case.clone(),
                    detail,
                });
                break;
            }
        }
    }
    let _ = TokenType::Eof;
    out
}
