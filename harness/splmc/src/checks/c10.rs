//! C10 — formatting never loses or duplicates a comment.  E-INPUT.
use crate::checks::fmt::*;
use crate::common::*;
use crate::gen::ast::*;
use crate::gen::layout::*;
use crate::progs;
use crate::reflex;
use rayon::prelude::*;
use serde_json::{json, Value};
use std::collections::BTreeMap;
use std::sync::atomic::{AtomicU64, Ordering};

pub const COMMENT_CLASSES: &[&str] = &[
    " c",
    "  lead",
    " trail  ",
    " \u{e9}\u{1f600}",
    " a // b",
    "",
    // longer than 120 columns, with commas, blanks, brackets and quotes inside
    " a long comment, with commas, (brackets), 'quotes' and ; semicolons, repeated: x, y, z; x, y, z; x, y, z; x, y, z; x, y, z; x, y, z; x, y, z; end",
];

/// Err(kind, detail)
pub fn eval_text(text: &str) -> Result<(), (String, String)> {
    let answers = format_requests(text, &[DEFAULT_OPT]).map_err(|e| ("error".to_string(), e))?;
    let new_text = match apply_whole_document_edit(text, &answers[0]) {
        Ok(t) => t,
        // the range defect is C09's business; take the new text regardless
        Err(_) => answers[0].edits.as_ref().and_then(|e| e.first()).and_then(|e| e["newText"].as_str()).unwrap_or(text).to_string(),
    };
    let before = comments(&reflex::lex(text));
    let after = comments(&reflex::lex(&new_text));
    if before == after {
        return Ok(());
    }
    let kind = if after.len() < before.len() {
        "lost"
    } else if after.len() > before.len() {
        "duplicated"
    } else {
        "changed-or-reordered"
    };
    Err((kind.into(), format!("comments before {:?}\nafter {:?}\nformatted text {:?}", before, after, new_text)))
}

pub fn run(tier: Tier) -> Report {
    let mut rep = Report::new("C10", tier);
    let items = progs::syntactic_family(tier);
    let evals = AtomicU64::new(0);
    let step = tier.pick(2, 1);
    // per gap class: (cases, failing)
    let results: Vec<(String, bool, Option<Failure>)> = items
        .par_iter()
        .enumerate()
        .filter(|(i, it)| i % step == 0 || progs::always_included(it.family) || it.family == "types")
        .flat_map_iter(|(i, it)| {
            let pr = print_program(&it.program);
            let n = pr.toks.len();
            let mut out = vec![];
            // every single gap of the focus declaration (every gap of the text for every 31st program)
            let gaps: Vec<usize> = if i % 31 == 0 { (0..=n).collect() } else { crate::checks::c04::focus_gaps(&pr, it.focus_decl) };
            let mut single_ok: Vec<usize> = vec![];
            for g in gaps {
                let class = COMMENT_CLASSES[(g + i) % COMMENT_CLASSES.len()];
                let r = render(&pr.toks, Layout::Spaces, &[g], &|g| format!("{}{}", class, g));
                evals.fetch_add(1, Ordering::Relaxed);
                let key = owner_key(&pr, g);
                match eval_text(&r.text) {
                    Ok(()) => {
                        single_ok.push(g);
                        out.push((key, false, None))
                    }
                    Err((kind, detail)) => {
                        let k = format!("comment-{}:{}", kind, key);
                        out.push((key, true, Some(Failure { key: k, case: json!({"text": r.text, "gap": g, "family": it.family}), detail })));
                    }
                }
            }
            // the same comment text in every gap that keeps its comment when it is the only one:
            // equal texts are different comments, each must survive
            let keepers: Vec<usize> = single_ok.clone();
            if keepers.len() >= 2 {
                let r = render(&pr.toks, Layout::Spaces, &keepers, &|_| " same text".to_string());
                evals.fetch_add(1, Ordering::Relaxed);
                match eval_text(&r.text) {
                    Ok(()) => out.push(("equal-texts".into(), false, None)),
                    Err((kind, detail)) => out.push((
                        "equal-texts".into(),
                        true,
                        Some(Failure { key: format!("comment-{}:equal-texts", kind), case: json!({"text": r.text, "family": it.family, "gaps": keepers}), detail }),
                    )),
                }
            }
            // ... and with numbered texts: every comment survives *in source order*
            if keepers.len() >= 2 {
                let r = render(&pr.toks, Layout::Spaces, &keepers, &|g| format!(" k{}", g));
                evals.fetch_add(1, Ordering::Relaxed);
                match eval_text(&r.text) {
                    Ok(()) => out.push(("safe-gaps-at-once".into(), false, None)),
                    Err((kind, detail)) => out.push((
                        "safe-gaps-at-once".into(),
                        true,
                        Some(Failure { key: format!("comment-{}:safe-gaps-at-once", kind), case: json!({"text": r.text, "family": it.family, "gaps": keepers}), detail }),
                    )),
                }
            }
            // all gaps at once
            let all: Vec<usize> = (0..=n).collect();
            let r = render(&pr.toks, Layout::Minimal, &all, &|g| format!(" c{}", g));
            evals.fetch_add(1, Ordering::Relaxed);
            // (programs that contain the one gap class of the known finding are a class of their own)
            let special = "ProcDecl:behind-the-last-variable-declaration-of-a-body-without-statements";
            let agk = if all.iter().any(|g| owner_key(&pr, *g) == special) { "all-gaps-at-once:with-a-comment-behind-the-last-variable-declaration-of-a-body-without-statements" } else { "all-gaps-at-once" };
            match eval_text(&r.text) {
                Ok(()) => out.push((agk.into(), false, None)),
                Err((kind, detail)) => out.push((
                    agk.into(),
                    true,
                    Some(Failure { key: format!("comment-{}:{}", kind, agk), case: json!({"text": r.text, "family": it.family}), detail }),
                )),
            }
            out
        })
        .collect();
    let mut classes: BTreeMap<String, (u64, u64)> = BTreeMap::new();
    let mut fails = vec![];
    for (k, failed, f) in results {
        let e = classes.entry(k).or_default();
        e.0 += 1;
        if failed {
            e.1 += 1;
        }
        if let Some(f) = f {
            if fails.len() < MAX_KEPT_FAILURES * 20 {
                fails.push(f);
            }
        }
    }
    let mixed: Vec<String> = classes.iter().filter(|(_, (n, f))| *f > 0 && f < n).map(|(k, (n, f))| format!("{} ({}/{})", k, f, n)).collect();
    rep.states = classes.len() as u64;
    rep.transitions = evals.load(Ordering::Relaxed);
    rep.evaluations = rep.transitions;
    rep.traces_validated = rep.transitions;
    rep.distinct_nontrivial = rep.transitions;
    rep.rule = "every generated program (Spaces layout) x a uniquely numbered comment line in every single gap of the focus declaration (every gap of the whole text for every 31st program), comment text classes {plain, leading blanks, trailing blanks, non-ASCII, containing //, empty}, plus comments in all gaps at once; oracle: the sequence of comment texts (independent lexer, outer white space trimmed) is unchanged; states = distinct gap classes (innermost node ~ previous token ~ next token)".into();
    rep.bounds = json!({"derivations": items.len(), "gap_classes": classes.len(), "gap_classes_failing_entirely": classes.iter().filter(|(_, (n, f))| f == n).count(), "gap_classes_failing_partly": mixed});
    rep.sample(json!({"text": "proc main ( ) { i := // c7\n 1 ; }"}));
    rep.assumptions = vec!["comment texts compared modulo the outer white space the formatter trims".into()];
    rep.failures = fails;
    rep
}

pub fn replay(case: &Value) -> Vec<Failure> {
    match eval_text(case["text"].as_str().unwrap_or("")) {
        Ok(()) => vec![],
        Err((k, d)) => vec![Failure { key: format!("comment-{}", k), case: case.clone(), detail: d }],
    }
}
