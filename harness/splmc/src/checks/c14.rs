//! C14 — hover and signature help tell the truth about declarations.
use crate::checks::nav::*;
use crate::common::*;
use crate::gen::ast::*;
use crate::gen::refsem::{EntKind, Entity, Occ, ParamSig, Target, BUILTIN_PROCS};
use crate::lsptext;
use crate::progs;
use crate::session::*;
use rayon::prelude::*;
use serde_json::{json, Value};
use std::sync::atomic::{AtomicU64, Ordering};

fn param_text(p: &ParamSig) -> String {
    format!("{}{}: {}", if p.is_ref { "ref " } else { "" }, p.name, p.ty.as_ref().map(|t| t.render()).unwrap_or_else(|| "_".into()))
}

fn proc_sig(doc: &Doc, name: &str) -> Option<Vec<ParamSig>> {
    match doc.sem.globals.get(name) {
        Some(Entity::Proc { params, .. }) => Some(params.clone()),
        _ => None,
    }
}

/// fragments that must occur in this order in the hover text
pub fn expected_hover(doc: &Doc, o: &Occ) -> Option<Vec<String>> {
    let mut frags: Vec<String> = vec![];
    let decl_tok = match o.target {
        Target::Decl(t) => Some(t),
        Target::Builtin => None,
        Target::Unbound => return None,
    };
    match o.kind? {
        EntKind::Proc => {
            let sig = proc_sig(doc, &o.name)?;
            frags.push(format!("proc {}(", o.name));
            for p in &sig {
                frags.push(param_text(p));
            }
            frags.push(")".into());
        }
        EntKind::Type => {
            let ty = match doc.sem.globals.get(&o.name) {
                Some(Entity::Type { ty, .. }) => ty.clone(),
                _ => None,
            };
            if o.target == Target::Builtin {
                // the predefined type has no declaration: its name is all there is to show
                frags.push(o.name.clone());
            } else {
                // kind, name, resolved type
                frags.push("type".into());
                frags.push(o.name.clone());
                if let Some(t) = ty {
                    frags.push(t.render());
                }
            }
        }
        EntKind::Param | EntKind::Var => {
            let t = decl_tok?;
            let d = doc.pr.toks[t].decl;
            let l = doc.sem.locals[d].values().find(|l| l.name_tok == t)?;
            frags.push(format!(
                "{}{}: {}",
                if l.is_ref { "ref " } else { "" },
                o.name,
                l.ty.as_ref().map(|t| t.render()).unwrap_or_else(|| "_".into())
            ));
        }
    }
    // doc comment of the declaration: the comment in the gap in front of the declaration's
    // first token
    if let Some(t) = decl_tok {
        let first = match o.kind? {
            EntKind::Proc | EntKind::Type => doc.pr.decl_spans[doc.pr.toks[t].decl].0,
            EntKind::Param => {
                if t > 0 && doc.pr.toks[t - 1].text == "ref" {
                    t - 1
                } else {
                    t
                }
            }
            EntKind::Var => t - 1,
        };
        if doc.gaps.contains(&first) {
            // the texts of the comment lines of that gap, as rendered
            for (_, _, _, line) in doc.r.comments.iter().filter(|c| c.0 == first) {
                frags.push(line.trim().to_string());
            }
        }
    }
    Some(frags)
}

fn contains_in_order(hay: &str, frags: &[String]) -> Result<(), String> {
    let mut pos = 0;
    for f in frags {
        match hay[pos..].find(f.as_str()) {
            Some(i) => pos += i + f.len(),
            None => return Err(format!("fragment {:?} missing (in order) in {:?}", f, hay)),
        }
    }
    Ok(())
}

pub fn eval_doc(doc: &Doc) -> (Vec<Failure>, u64) {
    let mut s = Session::new(false);
    s.open(URI, doc.text());
    let mut hov = vec![];
    for o in &doc.sem.occs {
        for (l, c) in doc.tok_positions(o.tok) {
            hov.push((o, s.pos_request("textDocument/hover", URI, l, c), (l, c)));
        }
    }
    // signature help: every byte position from just after `(` to just before `)`
    let mut sig = vec![];
    for call in &doc.pr.calls {
        let from = doc.r.tok_ranges[call.lparen].1;
        let to = doc.r.tok_ranges[call.rparen].0;
        for p in from..=to {
            if !doc.text().is_char_boundary(p) {
                continue;
            }
            let (l, c) = lsptext::position(doc.text(), p);
            // a position right behind a CR of a CRLF pair has no LSP position of its own
            if lsptext::offset(doc.text(), l, c) != Some(p) {
                continue;
            }
            let commas = call.commas.iter().filter(|k| doc.r.tok_ranges[**k].1 <= p).count();
            sig.push((call, s.pos_request("textDocument/signatureHelp", URI, l, c), p, commas));
        }
    }
    let n = (hov.len() + sig.len()) as u64;
    let out = s.run();
    let mut fails = vec![];
    if let Some(e) = out.error.clone().or(out.frame_error.clone()) {
        fails.push(Failure { key: "hover:error".into(), case: doc.case(Value::Null), detail: e });
        return (fails, n);
    }
    let resp = out.responses();
    for (o, id, pos) in hov {
        let got = resp.get(&id).and_then(|r| r.get("result").cloned()).unwrap_or(json!("no result"));
        let kind = o.kind.map(|k| format!("{:?}", k).to_lowercase()).unwrap_or_else(|| "unbound".into());
        let builtin = if o.target == Target::Builtin { ":builtin" } else { "" };
        match expected_hover(doc, o) {
            None => {
                if !got.is_null() && fails.len() < 40 {
                    fails.push(Failure { key: format!("hover:{}:unexpected-answer", kind), case: doc.case(json!({"method": "hover", "pos": [pos.0, pos.1]})), detail: format!("{}", got) });
                }
            }
            Some(frags) => {
                let range_ok = got.get("range") == Some(&doc.tok_range(o.tok));
                let text = got["contents"]["value"].as_str().unwrap_or("");
                // (no comment text of the generator contains a CR: one in the answer is a line
                // terminator that leaked into the documentation)
                let content = contains_in_order(text, &frags).and_then(|_| if text.contains('\r') { Err(format!("the documentation contains a carriage return (a line end of the document): {:?}", text)) } else { Ok(()) });
                if !range_ok && fails.len() < 40 {
                    fails.push(Failure {
                        key: format!("hover:{}{}:range", kind, builtin),
                        case: doc.case(json!({"method": "textDocument/hover", "position": [pos.0, pos.1], "expected_range": doc.tok_range(o.tok), "expected_fragments": frags})),
                        detail: format!("range {:?}, identifier range {}", got.get("range"), doc.tok_range(o.tok)),
                    });
                }
                if let Err(e) = content {
                    if fails.len() < 40 {
                        let what = if e.contains("carriage return") { "doc-with-line-terminator" } else if e.contains("doc") && e.contains('$') && !frags.iter().take(frags.len() - 1).any(|f| !text.contains(f.as_str())) { "doc" } else { "signature" };
                        fails.push(Failure {
                            key: format!("hover:{}{}:{}", kind, builtin, what),
                            case: doc.case(json!({"method": "textDocument/hover", "position": [pos.0, pos.1], "expected_range": doc.tok_range(o.tok), "expected_fragments": frags})),
                            detail: e,
                        });
                    }
                }
            }
        }
    }
    for (call, id, p, commas) in sig {
        let got = resp.get(&id).and_then(|r| r.get("result").cloned()).unwrap_or(json!("no result"));
        let builtin = BUILTIN_PROCS.iter().any(|(n, _)| *n == call.callee);
        let Some(params) = proc_sig(doc, &call.callee) else { continue };
        let sig0 = &got["signatures"][0];
        let label = sig0["label"].as_str().unwrap_or("");
        let mut problems = vec![];
        if !label.contains(&format!("proc {}(", call.callee)) {
            problems.push(format!("label {:?} does not name the callee", label));
        }
        let ps = sig0["parameters"].as_array().cloned().unwrap_or_default();
        if ps.len() != params.len() {
            problems.push(format!("{} parameter entries, {} declared", ps.len(), params.len()));
        } else {
            for (g, w) in ps.iter().zip(&params) {
                let l = g["label"].as_str().unwrap_or("");
                if l != param_text(w) {
                    problems.push(format!("parameter entry {:?}, declared {:?}", l, param_text(w)));
                }
            }
        }
        let active = got.get("activeParameter").and_then(|v| v.as_u64()).or(sig0.get("activeParameter").and_then(|v| v.as_u64()));
        if params.is_empty() {
            if !matches!(active, None | Some(0)) {
                problems.push(format!("active parameter {:?} for a parameterless procedure", active));
            }
        } else if active != Some(commas as u64) {
            problems.push(format!("active parameter {:?}, {} commas in front of the cursor", active, commas));
        }
        if !problems.is_empty() && fails.len() < 40 {
            let what = if problems.iter().any(|p| p.contains("active")) { "active-parameter" } else { "signature" };
            fails.push(Failure {
                key: format!("signatureHelp:{}:{}", if builtin { "builtin" } else { "declared" }, what),
                case: doc.case(json!({"method": "textDocument/signatureHelp", "position": lsptext::position(doc.text(), p), "callee": call.callee,
                    "expected_parameters": params.iter().map(param_text).collect::<Vec<_>>(), "expected_active": commas})),
                detail: format!("call of {} at byte {}: {}", call.callee, p, problems.join("; ")),
            });
        }
    }
    (fails, n)
}

pub fn run(tier: Tier) -> Report {
    let mut rep = Report::new("C14", tier);
    let items = progs::typed_family(tier);
    let calls = AtomicU64::new(0);
    let docs = AtomicU64::new(0);
    let fails: Vec<Failure> = items
        .par_iter()
        .enumerate()
        .flat_map_iter(|(i, it)| {
            let pr = print_program(&it.program);
            let nvar = if (it.family == "scenario-permutations" || progs::always_included(it.family)) { 7 } else { 1 + (i % 3 == 0) as usize };
            let vars = doc_variants(&pr, 6);
            let mut out = vec![];
            for k in 0..nvar {
                let (layout, gaps) = vars[(i + k) % vars.len()].clone();
                let doc = Doc::new(it, layout, gaps);
                let (f, n) = eval_doc(&doc);
                calls.fetch_add(n, Ordering::Relaxed);
                docs.fetch_add(1, Ordering::Relaxed);
                out.extend(f);
            }
            out
        })
        .collect();
    rep.states = docs.load(Ordering::Relaxed);
    rep.transitions = calls.load(Ordering::Relaxed);
    rep.evaluations = rep.transitions;
    rep.traces_validated = rep.transitions;
    rep.distinct_nontrivial = items.len() as u64;
    rep.rule = "well-typed programs x layouts/comment placements: hover at every column of every identifier occurrence (range = identifier, content contains in order kind/name/ref marker/resolved type rendered from the reference binding, then the declaration's doc comment); signature help at every byte position between `(` and `)` of every call (label names the callee, one entry per declared parameter with name, ref marker and resolved type, active parameter = commas in front of the cursor)".into();
    rep.bounds = json!({"programs": items.len(), "documents": rep.states});
    rep.sample(json!({"text": "proc q(x: int, ref y: int) {} proc main() { var j: int; q(1, j); }", "request": "signatureHelp between the arguments"}));
    rep.assumptions = vec!["bindings, signatures and resolved types from refsem.rs; structured containment, not byte equality of the markdown".into()];
    rep.failures = fails;
    rep
}

pub fn replay(case: &Value) -> Vec<Failure> {
    let text = case["text"].as_str().unwrap_or("");
    let rq = &case["request"];
    let method = rq["method"].as_str().unwrap_or("");
    let mut s = Session::new(false);
    s.open(URI, text);
    let id = rq["position"].as_array().map(|p| s.pos_request(method, URI, p[0].as_u64().unwrap_or(0) as u32, p[1].as_u64().unwrap_or(0) as u32));
    let o = s.run();
    if let Some(e) = o.error.clone().or(o.frame_error.clone()) {
        return vec![Failure { key: "hover:error".into(), case: case.clone(), detail: e }];
    }
    let Some(id) = id else { return vec![] };
    let got = o.responses().get(&id).and_then(|r| r.get("result").cloned()).unwrap_or(Value::Null);
    let mut out = vec![];
    if method.ends_with("hover") {
        if got.get("range") != rq.get("expected_range") {
            out.push(Failure { key: "hover:range".into(), case: case.clone(), detail: format!("range {:?}", got.get("range")) });
        }
        let frags: Vec<String> = rq["expected_fragments"].as_array().map(|a| a.iter().filter_map(|f| f.as_str().map(|s| s.to_string())).collect()).unwrap_or_default();
        if let Err(e) = contains_in_order(got["contents"]["value"].as_str().unwrap_or(""), &frags) {
            out.push(Failure { key: "hover:content".into(), case: case.clone(), detail: e });
        }
    } else {
        let sig0 = &got["signatures"][0];
        let ps: Vec<Value> = sig0["parameters"].as_array().map(|a| a.iter().map(|p| p["label"].clone()).collect()).unwrap_or_default();
        let want: Vec<Value> = rq["expected_parameters"].as_array().cloned().unwrap_or_default();
        let active = got.get("activeParameter").and_then(|v| v.as_u64());
        let callee = rq["callee"].as_str().unwrap_or("");
        if !sig0["label"].as_str().unwrap_or("").contains(&format!("proc {}(", callee)) || ps != want || (!want.is_empty() && active != rq["expected_active"].as_u64()) {
            out.push(Failure { key: "signatureHelp".into(), case: case.clone(), detail: format!("got {}", got) });
        }
    }
    out
}
