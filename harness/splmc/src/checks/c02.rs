//! C02 — the server never crashes or goes silent, whatever the document or request.
//! E-INPUT (+ E-HIST for the edit part): every document of bounded families is opened in the real
//! `run()` (in process, tokio shim) and every supported request is sent at every position.
use crate::common::*;
use crate::gen::ast::print_program;
use crate::gen::layout::*;
use crate::lsptext;
use crate::progs;
use crate::session::*;
use crate::soup::*;
use rayon::prelude::*;
use serde_json::{json, Value};
use std::sync::atomic::{AtomicU64, Ordering};

/// every (line, character) worth probing: all UTF-16 columns of every line, one and two past
/// the line end, lines past the end, a huge column
pub fn positions(text: &str) -> Vec<(u32, u32)> {
    let ls = lsptext::lines(text);
    let mut out = vec![];
    // large documents: about 40 lines, on each the first and last columns and the columns around
    // the 8/16 bit boundaries (every position of every line would be some 10^5 requests)
    let large = text.len() > 20_000;
    let line_step = if large { (ls.len() / 40).max(1) } else { 1 };
    for (li, (s, e)) in ls.iter().enumerate().step_by(line_step) {
        let n = lsptext::utf16_len(&text[*s..*e]);
        if large {
            for c in [0, 1, 2, 254, 255, 256, 257, 65534, 65535, 65536, 65537, n.saturating_sub(1), n, n + 1] {
                if c <= n + 1 {
                    out.push((li as u32, c));
                }
            }
            continue;
        }
        for c in 0..=n + 1 {
            out.push((li as u32, c));
        }
    }
    let n = ls.len() as u32;
    out.push((n, 0));
    out.push((n + 2, 3));
    out.push((0, 1 << 31));
    out
}

#[derive(Clone, Debug)]
pub struct Req {
    pub method: String,
    pub params: Value,
}

pub fn all_requests(text: &str, uri: &str, formatting_matrix: bool) -> Vec<Req> {
    let mut out = vec![];
    for m in DOCUMENT_METHODS {
        out.push(Req { method: m.to_string(), params: doc_request_params(m, uri) });
    }
    if formatting_matrix {
        for tab in [0u32, 1, 2, 8, 9, 16, 255, 100_000] {
            for spaces in [true, false] {
                out.push(Req {
                    method: "textDocument/formatting".into(),
                    params: json!({"textDocument": {"uri": uri}, "options": {"tabSize": tab, "insertSpaces": spaces}}),
                });
            }
        }
    }
    for (l, c) in positions(text) {
        for m in POSITION_METHODS {
            let mut params = json!({"textDocument": {"uri": uri}, "position": {"line": l, "character": c}});
            match *m {
                "textDocument/references" => params["context"] = json!({"includeDeclaration": true}),
                "textDocument/rename" => params["newName"] = json!("zz9"),
                _ => {}
            }
            out.push(Req { method: m.to_string(), params });
        }
    }
    out
}

/// A document scenario: open `text`, optionally apply change batches, then send `reqs`.
#[derive(Clone, Debug)]
pub struct Scenario {
    pub text: String,
    /// each inner vec is one didChange notification (byte ranges on `text` as it evolves)
    pub edits: Vec<Vec<(usize, usize, String)>>,
    /// afterwards: didChange notifications with raw LSP ranges (line, character, line,
    /// character, text), which may overshoot lines and the document
    pub raw: Vec<Vec<RawChange>>,
}

pub type RawChange = (u32, u32, u32, u32, String);

/// the text after all edits of the scenario (raw ranges under the LSP position rules)
fn final_text(sc: &Scenario) -> String {
    let mut cur = sc.text.clone();
    for b in &sc.edits {
        for (a, e, r) in b {
            cur.replace_range(*a..*e, r);
        }
    }
    for b in &sc.raw {
        for (l1, c1, l2, c2, t) in b {
            if let Some(n) = lsptext::apply(&cur, &lsptext::Change { range: Some((*l1, *c1, *l2, *c2)), text: t.clone() }) {
                cur = n;
            }
        }
    }
    cur
}

fn build_session(sc: &Scenario, reqs: &[Req]) -> (Session, Vec<i64>, String) {
    let mut s = Session::new(true);
    s.open(URI, &sc.text);
    let mut cur = sc.text.clone();
    for batch in &sc.edits {
        let mut evs = vec![];
        for (a, b, r) in batch {
            let (l1, c1) = lsptext::position(&cur, *a);
            let (l2, c2) = lsptext::position(&cur, *b);
            evs.push(json!({"range": {"start": {"line": l1, "character": c1}, "end": {"line": l2, "character": c2}}, "text": r}));
            cur.replace_range(*a..*b, r);
        }
        s.change(URI, Value::Array(evs));
    }
    for batch in &sc.raw {
        let evs: Vec<Value> = batch
            .iter()
            .map(|(l1, c1, l2, c2, t)| json!({"range": {"start": {"line": l1, "character": c1}, "end": {"line": l2, "character": c2}}, "text": t}))
            .collect();
        s.change(URI, Value::Array(evs));
    }
    let cur = final_text(sc);
    let ids = reqs.iter().map(|r| s.request(&r.method, r.params.clone())).collect();
    (s, ids, cur)
}

fn well_formed(resp: &Value, id: i64) -> bool {
    resp.get("jsonrpc").and_then(|v| v.as_str()) == Some("2.0")
        && resp.get("id").and_then(|v| v.as_i64()) == Some(id)
        && (resp.get("result").is_some() ^ resp.get("error").is_some())
}

fn doc_class(text: &str) -> &'static str {
    if text.is_ascii() {
        "ascii"
    } else {
        "non-ascii"
    }
}

/// Runs the scenario; returns failures (one per failing request, isolated by re-running the
/// failing requests one by one).
pub fn eval_scenario(sc: &Scenario, formatting_matrix: bool, family: &str) -> (Vec<Failure>, u64) {
    let _g = watch("C02", || json!({"text": sc.text, "edits": format!("{:?} {:?}", sc.edits, sc.raw)}).to_string());
    // current text after the edits decides the probe positions
    let cur = final_text(sc);
    let reqs = all_requests(&cur, URI, formatting_matrix);
    let n = reqs.len() as u64;
    let (s, ids, _) = build_session(sc, &reqs);
    let o = s.run();
    let resp = o.responses();
    let all_ok = o.error.is_none()
        && o.frame_error.is_none()
        && ids.iter().all(|id| resp.get(id).map(|r| well_formed(r, *id) && r.get("result").is_some()).unwrap_or(false))
        && o.response_ids() == std::iter::once(0).chain(ids.iter().cloned()).collect::<Vec<_>>();
    if all_ok {
        return (vec![], n);
    }
    // isolate
    let mut fails = vec![];
    // (a) the document alone
    let (s0, _, _) = build_session(sc, &[]);
    let o0 = s0.run();
    if o0.error.is_some() || o0.frame_error.is_some() {
        let msg = o0.error.or(o0.frame_error).unwrap();
        fails.push(Failure {
            key: format!("analysis|{}", panic_site(&msg)),
            case: json!({"text": sc.text, "edits": sc.edits, "raw_changes": sc.raw, "request": Value::Null, "family": family}),
            detail: msg,
        });
        return (fails, n);
    }
    for r in &reqs {
        let (s1, ids1, _) = build_session(sc, std::slice::from_ref(r));
        let o1 = s1.run();
        let resp1 = o1.responses();
        let ok = o1.error.is_none()
            && o1.frame_error.is_none()
            && resp1.get(&ids1[0]).map(|x| well_formed(x, ids1[0]) && x.get("result").is_some()).unwrap_or(false);
        if !ok {
            let msg = o1
                .error
                .clone()
                .or(o1.frame_error.clone())
                .unwrap_or_else(|| format!("no well-formed result response: {:?}", resp1.get(&ids1[0])));
            fails.push(Failure {
                key: format!("{}|{}|{}", r.method.trim_start_matches("textDocument/"), panic_site(&msg), doc_class(&sc.text)),
                case: json!({"text": sc.text, "edits": sc.edits, "raw_changes": sc.raw, "request": {"method": r.method, "params": r.params}, "family": family}),
                detail: msg,
            });
            if fails.len() >= 40 {
                break;
            }
        }
    }
    if fails.is_empty() {
        fails.push(Failure {
            key: "only-in-combination".into(),
            case: json!({"text": sc.text, "edits": sc.edits, "raw_changes": sc.raw, "family": family}),
            detail: format!("session with all requests failed ({:?} {:?}) but every request alone succeeds", o.error, o.frame_error),
        });
    }
    (fails, n)
}

pub fn run(tier: Tier) -> Report {
    let mut rep = Report::new("C02", tier);
    start_watchdog(60);
    let calls = AtomicU64::new(0);
    let docs = AtomicU64::new(0);
    let mut fails: Vec<Failure> = vec![];
    let mut fams = vec![];
    let mut run_family = |name: &'static str, scs: Vec<Scenario>, fm: bool, fails: &mut Vec<Failure>| {
        let f: Vec<Failure> = scs
            .par_iter()
            .flat_map_iter(|sc| {
                let (f, n) = eval_scenario(sc, fm, name);
                calls.fetch_add(n, Ordering::Relaxed);
                docs.fetch_add(1, Ordering::Relaxed);
                f
            })
            .collect();
        fams.push(json!({"family": name, "documents": scs.len(), "failing_requests": f.len()}));
        fails.extend(f.into_iter().take(MAX_KEPT_FAILURES));
    };
    let plain = |t: String| Scenario { text: t, edits: vec![], raw: vec![] };

    // token soups
    let toks = Strings::new(SIGMA_TOK, tier.pick(3, 4));
    let n_tok = if tier == Tier::Quick { toks.count() } else { toks.count() };
    run_family(
        "token-soup",
        (0..n_tok).map(|i| plain(toks.get_joined(i, " "))).collect(),
        false,
        &mut fails,
    );
    // character soups (incl. unterminated literals/comments, CRLF, astral characters)
    let alpha = sigma_char(true);
    let chars = Strings::new(&alpha, tier.pick(3, 4));
    run_family("char-soup", (0..chars.count()).map(|i| plain(chars.get(i))).collect(), false, &mut fails);
    // valid programs in several layouts, full formatting matrix
    let items = progs::syntactic_family(Tier::Quick);
    let step = tier.pick(23, 3);
    let mut scs = vec![];
    for (i, it) in items.iter().enumerate() {
        // the structured chains (else-if with differently shaped branches) are always included
        if i % step != 0 && it.family != "stmt@else-chains" {
            continue;
        }
        let pr = print_program(&it.program);
        let layout = ALL_LAYOUTS[i / step % ALL_LAYOUTS.len()];
        let gaps: Vec<usize> = if i % 2 == 0 { vec![] } else { (0..=pr.toks.len()).step_by(3).collect() };
        scs.push(plain(render(&pr.toks, layout, &gaps, &|g| format!(" c{}", g)).text));
    }
    run_family("valid-programs", scs, true, &mut fails);
    // single-token mutations of a few programs: delete / replace / insert each token
    let mut scs = vec![];
    let base: Vec<_> = items.iter().filter(|it| it.family == "G1-whole-programs").collect();
    let bstep = tier.pick(40, 8).max(1);
    for it in base.iter().step_by(bstep) {
        let pr = print_program(&it.program);
        let words: Vec<String> = pr.toks.iter().map(|t| t.text.clone()).collect();
        for k in 0..=words.len() {
            for m in SIGMA_TOK.iter().step_by(tier.pick(3, 1)) {
                // insert m in front of token k
                let mut w = words.clone();
                w.insert(k, m.trim_end().to_string() + if m.ends_with('\n') { "\n" } else { "" });
                scs.push(plain(w.join(" ")));
                if k < words.len() {
                    let mut w = words.clone();
                    w[k] = m.to_string();
                    scs.push(plain(w.join(" ")));
                }
            }
            if k < words.len() {
                let mut w = words.clone();
                w.remove(k);
                scs.push(plain(w.join(" ")));
            }
        }
    }
    run_family("mutated-programs", scs, false, &mut fails);
    // nesting ladders (bounded depth; deeper nesting is a process-level concern)
    let mut scs = vec![];
    for d in [1usize, 2, 4, 8, 16, 32] {
        scs.push(plain(format!("proc main() {{ i := {}1{}; }}", "(".repeat(d), ")".repeat(d))));
        scs.push(plain(format!("proc main() {{ {} ; {} }}", "{".repeat(d), "}".repeat(d))));
        scs.push(plain(format!("proc main() {{ {} ; }}", "if (1) ".repeat(d))));
        scs.push(plain(format!("proc main() {{ {} ; }}", "while (1) ".repeat(d))));
        scs.push(plain(format!("type T = {} int;", "array [1] of ".repeat(d))));
        scs.push(plain(format!("proc main() {{ a{} := 1; }}", "[1]".repeat(d))));
        scs.push(plain(format!("proc main() {{ i := {}1; }}", "-".repeat(d))));
        scs.push(plain("(".repeat(d)));
        scs.push(plain(format!("proc main() {{ {} }}", "if (1) ; else ".repeat(d))));
    }
    // documents that crashed earlier versions (kept so that the quick tier guards the repairs)
    for t in ["proc printi", "proc int printi", "proc a int array", "proc int '\u{20ac}'", "type A = array [2] of int; proc main() { var v: array [2] of int; v[0] := 1; }", "\na",
        // predefined names in type expressions of type declarations
        "type a = printi ;", "type a = array [ 1 ] of exit ; type b = a ;", "type int = readi ; proc p ( x : time ) { }"] {
        scs.push(plain(t.to_string()));
    }
    // an edit history that killed the document task of earlier versions (stale node re-use in
    // the incremental parser ran out of the token list after the fourth edit)
    scs.push(Scenario {
        text: "proc main() {\n  var i: int;\n  i := 'a' + 0x1F;\n  printi(i); // trailing\n  printc('\\n');\n}\nproc other(a: int, b: int, ref c: int) {\n  c := a * b - -a;\n  other(a, b, c);\n}".to_string(),
        edits: vec![vec![(28, 28, "-".to_string())], vec![(130, 130, "while ".to_string())], vec![(166, 171, "// c\n".to_string())], vec![(136, 137, "+".to_string())]],
        raw: vec![],
    });
    // two single edits (valid -> valid) after which formatting killed the server of earlier
    // versions (stale tree of the incremental parser in a procedure that is not the first one)
    {
        let t = "proc f() {}\nproc main() {\n  var y: int;\n  y := 2;\n}\n".to_string();
        let off = t.find("var y: int").unwrap() + "var y: int".len();
        scs.push(Scenario { text: t, edits: vec![vec![(off, off, ";".to_string())]], raw: vec![] });
        let t = "proc f() {} proc main() { var i: int; if (i < 2) i := 1; else { i := 0; } i := 3; }".to_string();
        let off = t.find("else {").unwrap() + 4;
        scs.push(Scenario { text: t, edits: vec![vec![(off, off + 1, "{}".to_string())]], raw: vec![] });
    }
    // programs far beyond the small bounds: 2 500 statements, as one line of 60 KB and as
    // 25 000 lines (requests at sampled positions, see `positions`)
    for layout in [Layout::Minimal, Layout::Lines, Layout::Cr] {
        let pr = print_program(&progs::scale_program(40, 40, 2500));
        scs.push(plain(render(&pr.toks, layout, &[], &|_| String::new()).text));
    }
    run_family("nesting-ladders", scs, false, &mut fails);
    // edit histories: requests after one and two didChange notifications (incremental tree)
    let mut scs = vec![];
    let hist_tok = Strings::new(SIGMA_TOK, 2);
    let repl: Vec<&str> = SIGMA_TOK.iter().cloned().step_by(tier.pick(4, 1)).collect();
    for i in 0..hist_tok.count() {
        let t = hist_tok.get_joined(i, " ");
        let b = char_boundaries(&t);
        for (bi, &s) in b.iter().enumerate().step_by(tier.pick(2, 1)) {
            for &e in b[bi..].iter().step_by(tier.pick(3, 1)) {
                for r in &repl {
                    scs.push(Scenario { text: t.clone(), edits: vec![vec![(s, e, r.to_string())]], raw: vec![] });
                }
            }
        }
    }
    // typing a program character by character, then deleting it again (one session)
    let typed = "type A = array [2] of int;\nproc main() {\n  var a: A;\n  if (a[0] < 1) a[1] := 'x'; else printi(0x1F);\n}\n";
    let mut edits = vec![];
    for (i, c) in typed.char_indices() {
        edits.push(vec![(i, i, c.to_string())]);
    }
    for k in 0..edits.len() {
        scs.push(Scenario { text: String::new(), edits: edits[..=k].to_vec(), raw: vec![] });
    }
    run_family("edit-histories", scs, false, &mut fails);
    // edits with raw LSP ranges: every pair of positions of a small grid that overshoots the
    // lines and the document (a column behind the end of a line is the end of that line), on
    // documents with every kind of line end, also two in one notification
    let mut scs = vec![];
    let raw_texts = ["", "a\rb\nc\r\nd", "ab\rcd\r", "\u{e9}\r\u{1f600}x\r\ny", "proc main() {\r  i := 1;\r}\r", "a\n\nb"];
    for t in raw_texts {
        let nl = lsptext::lines(t).len() as u32;
        let grid: Vec<(u32, u32)> = (0..=nl + 1).flat_map(|l| [0u32, 1, 2, 3, 99].into_iter().map(move |c| (l, c))).collect();
        for (i, a) in grid.iter().enumerate() {
            for b in grid.iter().skip(i).step_by(tier.pick(2, 1)) {
                for r in ["", "x\r"] {
                    scs.push(Scenario { text: t.to_string(), edits: vec![], raw: vec![vec![(a.0, a.1, b.0, b.1, r.to_string())]] });
                }
                scs.push(Scenario { text: t.to_string(), edits: vec![], raw: vec![vec![(a.0, a.1, b.0, b.1, "\n".to_string()), (b.0, b.1, b.0 + 1, 0, String::new())]] });
            }
        }
    }
    run_family("raw-range-edits", scs, false, &mut fails);

    // process level: the same sessions against the release binary (real stdio, real worker
    // stacks of 2 MiB): nesting ladders and a fixed sub-family of the documents above; the
    // binary must stay alive, answer every request, and answer exactly like the in-process run
    let mut proc_docs: Vec<Scenario> = vec![];
    for d in [1usize, 8, 32] {
        proc_docs.push(plain(format!("proc main() {{ i := {}1{}; }}", "(".repeat(d), ")".repeat(d))));
        proc_docs.push(plain(format!("proc main() {{ {} ; {} }}", "{".repeat(d), "}".repeat(d))));
        proc_docs.push(plain(format!("proc main() {{ {} ; }}", "if (1) ".repeat(d))));
        proc_docs.push(plain(format!("type T = {} int;", "array [1] of ".repeat(d))));
        proc_docs.push(plain(format!("proc main() {{ a{} := 1; }}", "[1]".repeat(d))));
        proc_docs.push(plain(format!("proc main() {{ {} }}", "if (1) ; else ".repeat(d))));
    }
    let toks3 = Strings::new(SIGMA_TOK, 3);
    for i in (0..toks3.count()).step_by(tier.pick(401, 53)) {
        proc_docs.push(plain(toks3.get_joined(i, " ")));
    }
    for (i, it) in items.iter().enumerate().step_by(tier.pick(211, 37)) {
        let pr = print_program(&it.program);
        proc_docs.push(plain(render(&pr.toks, ALL_LAYOUTS[i % ALL_LAYOUTS.len()], &[], &|_| String::new()).text));
    }
    let proc_fails: Vec<Failure> = proc_docs
        .par_iter()
        .filter_map(|sc| {
            let reqs = all_requests(&sc.text, URI, false);
            let (mut s, ids, _) = build_session(sc, &reqs);
            s.msgs.push(crate::session::request(1_000_000, "shutdown", Value::Null));
            s.msgs.push(crate::session::notification("exit", Value::Null));
            let inproc = s.run();
            let o = crate::procdrv::run_chunks(&[s.bytes()], false, std::time::Duration::from_secs(20));
            // completion items come out of a HashMap whose iteration order differs per process:
            // lists of labelled items are compared as multisets
            let canon = |mut v: Value| -> Value {
                if let Some(a) = v.get_mut("result").and_then(|r| r.as_array_mut()) {
                    if a.iter().all(|x| x.get("label").is_some()) {
                        a.sort_by_key(|x| x.to_string());
                    }
                }
                v
            };
            let strip = |fr: &[Value]| -> Vec<Value> { fr.iter().filter(|f| f.get("method").is_none() && f.get("id").and_then(|i| i.as_i64()) != Some(0)).cloned().map(canon).collect() };
            let bad = if o.timed_out {
                Some("the binary did not exit within 20 s".to_string())
            } else if o.signaled || o.exit_code != Some(0) {
                Some(format!("the binary ended with status {:?} (signal: {})", o.exit_code, o.signaled))
            } else if let Some(e) = &o.frame_error {
                Some(format!("malformed output: {}", e))
            } else if strip(&o.frames).len() != ids.len() + 1 {
                Some(format!("{} responses for {} requests", strip(&o.frames).len(), ids.len() + 1))
            } else if strip(&o.frames) != strip(&inproc.frames) {
                Some("the binary's responses differ from the in-process run of the same session".to_string())
            } else {
                None
            };
            bad.map(|d| Failure { key: "process:binary-session".into(), case: json!({"text": sc.text, "edits": sc.edits, "raw_changes": sc.raw, "mode": "process"}), detail: d })
        })
        .collect();
    fams.push(json!({"family": "binary-conformance", "documents": proc_docs.len(), "failing": proc_fails.len()}));
    let n_proc = proc_docs.len() as u64;
    fails.extend(proc_fails);
    // back-pressure: a slow reader of stdout behind 150 changes and 70 requests, and a burst
    // of 100 changes (more queued messages than the channels hold) - the process must survive
    // and answer (the full oracle of these sessions belongs to C20)
    for graceful in [true, false] {
        if let (Some((k, d)), _) = crate::checks::c20::eval_slow_reader(150, 70, graceful) {
            fails.push(Failure { key: format!("process:slow-reader:{}", k), case: json!({"slow_reader": {"procedures": 150, "requests": 70, "graceful": graceful}, "mode": "process"}), detail: d });
        }
    }
    for binary in [false, true] {
        if let Some((k, d)) = crate::checks::c20::eval_change_burst(100, binary) {
            fails.push(Failure { key: format!("process:change-burst:{}", k), case: json!({"change_burst": {"n": 100, "binary": binary}, "mode": "process"}), detail: d });
        }
    }
    rep.states = docs.load(Ordering::Relaxed);
    rep.transitions = calls.load(Ordering::Relaxed);
    rep.traces_validated = n_proc;
    rep.evaluations = rep.transitions;
    rep.distinct_nontrivial = rep.states;
    rep.rule = "documents: all sequences of <= k tokens of the token alphabet, all strings of <= k characters of the extended character alphabet, generated valid programs in 6 layouts, every single-token deletion/replacement/insertion on generated programs, nesting ladders to depth 32, and edit histories; per document the 13 supported request methods at every (line, UTF-16 column) incl. overshooting positions; a case fails when run() errs/panics or a request gets no well-formed result response in request order; distinct_nontrivial = distinct documents/histories".into();
    rep.bounds = json!({"families": fams, "token_alphabet": SIGMA_TOK, "char_alphabet": alpha});
    rep.sample(json!({"text": "proc printi", "request": "textDocument/implementation @0:6"}));
    rep.sample(json!({"text": "a := ( ;", "edits": [[0, 1, "if"]]}));
    rep.assumptions = vec![
        "in-process run() on a current-thread runtime with in-memory stdio (tokio shim); a fixed sub-family and the nesting ladders are replayed against the release binary (liveness, responses identical to the in-process run)".into(),
        "nesting bounded to 32; the release binary overflows its worker stack at several hundred nested constructs (outside the claimed bound)".into(),
    ];
    rep.failures = fails;
    rep
}

pub fn replay(case: &Value) -> Vec<Failure> {
    if case.get("slow_reader").is_some() || case.get("change_burst").is_some() {
        return crate::checks::c20::replay(case);
    }
    let text = case["text"].as_str().unwrap_or("").to_string();
    let edits: Vec<Vec<(usize, usize, String)>> = serde_json::from_value(case["edits"].clone()).unwrap_or_default();
    let raw: Vec<Vec<RawChange>> = serde_json::from_value(case["raw_changes"].clone()).unwrap_or_default();
    let sc = Scenario { text, edits, raw };
    if case["request"].is_object() {
        let r = Req { method: case["request"]["method"].as_str().unwrap().to_string(), params: case["request"]["params"].clone() };
        let (s, ids, _) = build_session(&sc, std::slice::from_ref(&r));
        let o = s.run();
        let resp = o.responses();
        let ok = o.error.is_none() && o.frame_error.is_none() && resp.get(&ids[0]).map(|x| x.get("result").is_some()).unwrap_or(false);
        if ok {
            vec![]
        } else {
            let msg = o.error.or(o.frame_error).unwrap_or_else(|| "no result response".into());
            vec![Failure { key: format!("{}|{}", r.method, panic_site(&msg)), case: case.clone(), detail: msg }]
        }
    } else {
        eval_scenario(&sc, true, "replay").0
    }
}
