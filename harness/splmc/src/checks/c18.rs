//! C18 — JSON-RPC/LSP lifecycle conformance and clean termination.
//! (a) every message history over the 8-letter alphabet up to the length bound against the
//!     release binary with a lock-step client; (b) every byte prefix of every short session
//!     followed by end-of-input; (c) the unmodified run() in process under the preemption-bounded
//!     scheduler for all histories that do not call process::exit(1).
use crate::common::*;
use crate::lifecycle::*;
use crate::procdrv;
use crate::sched::{self, EnvConfig};
use crate::session::{frame, notification, request};
use rayon::prelude::*;
use serde_json::{json, Value};
use std::sync::atomic::{AtomicU64, Ordering};
use std::time::Duration;

const EXIT_LIMIT: Duration = Duration::from_secs(10);
/// once this many failing cases are known the remaining process runs are skipped (a hanging
/// server would otherwise cost 10 s per case); the run is then reported as not exhaustive
const FAIL_FAST: u64 = 24;
static FAILED: AtomicU64 = AtomicU64::new(0);
fn saturated() -> bool {
    FAILED.load(Ordering::Relaxed) >= FAIL_FAST
}

fn history_json(h: &[Msg]) -> Vec<Value> {
    h.iter().enumerate().map(|(i, m)| to_json(*m, i)).collect()
}

/// (a) one history against the binary, lock-step
pub fn eval_process(h: &[Msg]) -> Option<(String, String)> {
    let exp = expect(h);
    let msgs = history_json(h);
    let mut o = procdrv::run_lockstep(&msgs, EXIT_LIMIT);
    if o.timed_out {
        // a hang is believed only when it reproduces alone
        o = procdrv::run_lockstep(&msgs, EXIT_LIMIT);
        if o.timed_out {
            return Some(("no-exit-after-end-of-input".into(), format!("no exit within {:?} after stdin was closed", EXIT_LIMIT)));
        }
    }
    if let Some(i) = o.unanswered {
        return Some(("request-unanswered".into(), format!("message #{} got no response within 5 s", i)));
    }
    if let Some(e) = &o.frame_error {
        return Some(("malformed-output".into(), e.clone()));
    }
    if o.signaled {
        return Some(("killed-by-signal".into(), "the process died from a signal".into()));
    }
    if let Err((k, d)) = check_responses(&o.frames, &exp, true) {
        return Some((k, d));
    }
    match exp.exit_code {
        Some(c) => {
            if o.exit_code != Some(c) {
                return Some((format!("exit-status-{:?}-instead-of-{}", o.exit_code, c), format!("history {}", class_string(h))));
            }
        }
        None => {
            // end of input without exit: the process must terminate on its own (any status)
            if o.exit_code.is_none() {
                return Some(("no-exit-status".into(), String::new()));
            }
        }
    }
    None
}

/// (a2) one history against the binary, fully pipelined in one write, then end of input
pub fn eval_pipelined(h: &[Msg]) -> Option<(String, String)> {
    let exp = expect(h);
    let bytes: Vec<u8> = history_json(h).iter().flat_map(frame).collect();
    let mut o = procdrv::run_chunks(&[bytes.clone()], false, EXIT_LIMIT);
    if o.timed_out {
        o = procdrv::run_chunks(&[bytes], false, EXIT_LIMIT);
        if o.timed_out {
            return Some(("pipelined:no-exit-after-end-of-input".into(), format!("no exit within {:?}", EXIT_LIMIT)));
        }
    }
    if o.signaled {
        return Some(("pipelined:killed-by-signal".into(), String::new()));
    }
    if let Some(e) = &o.frame_error {
        return Some(("pipelined:malformed-output".into(), e.clone()));
    }
    // every response must arrive, also in front of an `exit` without `shutdown` (the process
    // ends with status 1, but only after the queued responses are written)
    if let Err((k, d)) = check_responses(&o.frames, &exp, true) {
        return Some((format!("pipelined:{}", k), d));
    }
    if let Some(c) = exp.exit_code {
        if o.exit_code != Some(c) {
            return Some((format!("pipelined:exit-status-{:?}-instead-of-{}", o.exit_code, c), String::new()));
        }
    }
    None
}

/// (b) a byte prefix of a pipelined session followed by end of input
pub fn eval_prefix(h: &[Msg], cut: usize) -> Option<(String, String)> {
    let msgs = history_json(h);
    let frames: Vec<Vec<u8>> = msgs.iter().map(frame).collect();
    let all: Vec<u8> = frames.concat();
    let prefix = all[..cut].to_vec();
    // complete frames inside the prefix
    let mut complete = 0;
    let mut acc = 0;
    for f in &frames {
        if acc + f.len() <= cut {
            complete += 1;
            acc += f.len();
        } else {
            break;
        }
    }
    let on_boundary = acc == cut;
    let exp = expect(&h[..complete]);
    let mut o = procdrv::run_chunks(&[prefix.clone()], false, EXIT_LIMIT);
    if o.timed_out {
        o = procdrv::run_chunks(&[prefix], false, EXIT_LIMIT);
        if o.timed_out {
            return Some(("hang-after-end-of-input".into(), format!("prefix of {} bytes ({} complete frames): no exit within {:?}", cut, complete, EXIT_LIMIT)));
        }
    }
    if o.signaled {
        return Some(("killed-by-signal".into(), "the process died from a signal".into()));
    }
    // the output must be a well-formed prefix of the expected response stream; complete when
    // the input ends on a frame boundary and the process is not ended by `exit` before
    // the output must be well-formed (whatever ends the process: end of input on or off a
    // frame boundary, `exit` with or without `shutdown`) and contain the response to every
    // request of the complete frames
    let frames_out = match crate::session::parse_frames(&o.raw) {
        Ok(f) => f,
        Err(e) => return Some(("malformed-output".into(), e)),
    };
    let _ = on_boundary;
    if let Err((k, d)) = check_responses(&frames_out, &exp, true) {
        return Some((format!("prefix:{}", k), d));
    }
    None
}

/// (d) one session against the binary in which one request (unknown method, so that the answer
/// is an error of the phase) carries the id `id`; a numeric request follows it
pub fn eval_id_form(id: &Value, phase: &str) -> Option<(String, String)> {
    let probe = json!({"jsonrpc": "2.0", "id": id, "method": "foo/bar", "params": {}});
    let after = request(4242, "foo/baz", json!({}));
    let init = request(1000, "initialize", json!({"capabilities": {}}));
    let inited = notification("initialized", json!({}));
    let shut = request(1001, "shutdown", Value::Null);
    let exit = notification("exit", Value::Null);
    let msgs: Vec<Value> = match phase {
        "before-initialize" => vec![probe.clone(), after.clone(), init, inited, shut, exit],
        "main" => vec![init, inited, probe.clone(), after.clone(), shut, exit],
        _ => vec![init, inited, shut, probe.clone(), after.clone(), exit],
    };
    let bytes: Vec<u8> = msgs.iter().flat_map(frame).collect();
    let o = procdrv::run_chunks(&[bytes], false, EXIT_LIMIT);
    let form = if id.is_string() { "string" } else { "integer" };
    if o.timed_out {
        return Some((format!("id-form:{}:{}:hang", form, phase), "no exit".into()));
    }
    if let Some(e) = &o.frame_error {
        return Some((format!("id-form:{}:{}:malformed-output", form, phase), e.clone()));
    }
    let with_id = |x: &Value| o.frames.iter().filter(|f| f.get("method").is_none() && f.get("id") == Some(x)).count();
    if with_id(id) != 1 {
        return Some((format!("id-form:{}:{}:unanswered", form, phase), format!("{} response(s) with id {} in {:?}", with_id(id), id, o.frames.iter().map(|f| f["id"].clone()).collect::<Vec<_>>())));
    }
    if with_id(&json!(4242)) != 1 {
        return Some((format!("id-form:{}:{}:next-request-unanswered", form, phase), format!("ids answered: {:?}", o.frames.iter().map(|f| f["id"].clone()).collect::<Vec<_>>())));
    }
    if o.exit_code != Some(0) {
        return Some((format!("id-form:{}:{}:exit-status", form, phase), format!("{:?}", o.exit_code)));
    }
    None
}

/// (e) unknown methods with unusual names (long, non-ASCII around byte 48 / 64 / 255, empty):
/// every one is a request like any other and gets MethodNotFound with its id
pub fn eval_unknown_method_names() -> Option<(String, String)> {
    let names: Vec<String> = vec![
        String::new(),
        format!("{}\u{e9}tail", "a".repeat(47)),
        format!("{}\u{20ac}tail", "a".repeat(46)),
        format!("{}\u{1f600}", "m/".repeat(31)),
        format!("{}\u{e9}", "x".repeat(255)),
        "y".repeat(5000),
        "textDocument/hover ".to_string(),
        "$/\u{e9}".to_string(),
    ];
    let mut msgs = vec![request(1000, "initialize", json!({"capabilities": {}})), notification("initialized", json!({}))];
    for (i, n) in names.iter().enumerate() {
        msgs.push(request(i as i64 + 1, n, json!({})));
    }
    msgs.push(request(1001, "shutdown", Value::Null));
    msgs.push(notification("exit", Value::Null));
    let bytes: Vec<u8> = msgs.iter().flat_map(frame).collect();
    let o = procdrv::run_chunks(&[bytes], false, EXIT_LIMIT);
    if o.timed_out {
        return Some(("unknown-method-names:hang".into(), "no exit".into()));
    }
    if let Some(e) = &o.frame_error {
        return Some(("unknown-method-names:malformed-output".into(), e.clone()));
    }
    for (i, n) in names.iter().enumerate() {
        let r = o.frames.iter().find(|f| f.get("method").is_none() && f["id"].as_i64() == Some(i as i64 + 1));
        let code = r.and_then(|f| f["error"]["code"].as_i64());
        if code != Some(-32601) {
            return Some(("unknown-method-names:wrong-answer".into(), format!("method name #{} ({} bytes): answer {:?}, expected error -32601", i, n.len(), r.map(|f| truncate(&f.to_string(), 200)))));
        }
    }
    if o.exit_code != Some(0) {
        return Some(("unknown-method-names:exit-status".into(), format!("{:?}", o.exit_code)));
    }
    None
}

/// (f) a response above 8 / 16 KiB (beyond the write buffer of the framed writer) as the last
/// thing before the process ends - through shutdown+exit, through exit alone, through end of
/// input - and with a client that waits for it before it goes on (lock-step)
pub fn eval_large_response(ending: &str) -> Option<(String, String)> {
    let text: String = (0..400).map(|i| format!("proc p{}() {{\n}}\n", i)).collect();
    let mut msgs = vec![
        request(1000, "initialize", json!({"capabilities": {}})),
        notification("initialized", json!({})),
        notification("textDocument/didOpen", json!({"textDocument": {"uri": "file:///big.spl", "languageId": "spl", "version": 1, "text": text}})),
        request(1, "textDocument/foldingRange", json!({"textDocument": {"uri": "file:///big.spl"}})),
    ];
    match ending {
        "shutdown-exit" => {
            msgs.push(request(1001, "shutdown", Value::Null));
            msgs.push(notification("exit", Value::Null));
        }
        "exit" => msgs.push(notification("exit", Value::Null)),
        _ => {}
    }
    let o = if ending == "lock-step" {
        msgs.push(request(1001, "shutdown", Value::Null));
        msgs.push(notification("exit", Value::Null));
        procdrv::run_lockstep(&msgs, EXIT_LIMIT)
    } else {
        let bytes: Vec<u8> = msgs.iter().flat_map(frame).collect();
        procdrv::run_chunks(&[bytes], false, EXIT_LIMIT)
    };
    if o.timed_out {
        return Some((format!("large-response:{}:hang", ending), "no exit".into()));
    }
    if let Some(i) = o.unanswered {
        return Some((format!("large-response:{}:unanswered", ending), format!("message #{} got no response within 5 s", i)));
    }
    if let Some(e) = &o.frame_error {
        return Some((format!("large-response:{}:malformed-output", ending), truncate(e, 300)));
    }
    let n = o.frames.iter().find(|f| f.get("method").is_none() && f["id"].as_i64() == Some(1)).and_then(|f| f["result"].as_array()).map(|a| a.len());
    if n != Some(400) {
        return Some((format!("large-response:{}:missing-or-wrong", ending), format!("fold answer with {:?} ranges, expected 400; {} bytes of output", n, o.raw.len())));
    }
    None
}

/// (c) in process, all schedules within the preemption bound
pub fn eval_schedules(h: &[Msg], bound: usize, clamp: Option<usize>) -> (u64, u64, usize, Option<(String, String, Value)>) {
    let exp = expect(h);
    let msgs = history_json(h);
    let env = EnvConfig { chunks: msgs.iter().map(frame).collect(), feeder_task: false, clamp, stdout_cap: None, delay_bounded: false };
    let _g = watch_limit("C18", sched::MAX_SECONDS_PER_EXPLORATION + 160, || json!({"history": class_string(h), "bound": bound, "clamp": clamp, "mode": "in-process"}).to_string());
    let e = sched::explore(&env, bound);
    let case = |sched: &[usize]| json!({"history": class_string(h), "schedule": sched, "bound": bound, "clamp": clamp});
    if let Some((msg, s)) = &e.abort {
        let kind = if msg.contains("deadlock") { "deadlock" } else { "panic-or-engine-abort" };
        return (e.stats.executions, e.stats.decisions, e.outcomes.len(), Some((format!("schedule:{}", kind), msg.clone(), case(s))));
    }
    for (raw, (_, s, err)) in &e.outcomes {
        if let Some(er) = err {
            return (e.stats.executions, e.stats.decisions, e.outcomes.len(), Some(("schedule:run-returned-error".into(), er.clone(), case(s))));
        }
        match crate::session::parse_frames(raw) {
            Err(er) => return (e.stats.executions, e.stats.decisions, e.outcomes.len(), Some(("schedule:malformed-output".into(), er, case(s)))),
            Ok(frames) => {
                if let Err((k, d)) = check_responses(&frames, &exp, true) {
                    return (e.stats.executions, e.stats.decisions, e.outcomes.len(), Some((format!("schedule:{}", k), d, case(s))));
                }
            }
        }
    }
    // notifications (publishDiagnostics) may interleave differently with responses; the
    // response sub-sequence must not depend on the schedule
    let mut resp_seqs: std::collections::BTreeSet<String> = Default::default();
    for raw in e.outcomes.keys() {
        if let Ok(fr) = crate::session::parse_frames(raw) {
            let rs: Vec<&Value> = fr.iter().filter(|f| f.get("method").is_none()).collect();
            resp_seqs.insert(format!("{:?}", rs));
        }
    }
    if resp_seqs.len() > 1 {
        let s = e.outcomes.values().nth(1).map(|v| v.1.clone()).unwrap_or_default();
        return (e.stats.executions, e.stats.decisions, e.outcomes.len(), Some(("schedule:responses-depend-on-schedule".into(), format!("{} distinct response sequences", resp_seqs.len()), case(&s))));
    }
    (e.stats.executions, e.stats.decisions, e.outcomes.len(), None)
}

pub fn run(tier: Tier) -> Report {
    let mut rep = Report::new("C18", tier);
    let mut fails: Vec<Failure> = vec![];
    // (a)
    let hist = all_histories(tier.pick(4, 5));
    let fa: Vec<Failure> = hist
        .par_iter()
        .flat_map_iter(|h| {
            let mut out = vec![];
            if saturated() {
                return out;
            }
            if let Some((k, d)) = eval_process(h) {
                FAILED.fetch_add(1, Ordering::Relaxed);
                out.push(Failure { key: format!("lifecycle:{}", k), case: json!({"history": class_string(h), "mode": "process-lockstep"}), detail: format!("history {}: {}", class_string(h), d) });
            }
            if !saturated() {
                if let Some((k, d)) = eval_pipelined(h) {
                    FAILED.fetch_add(1, Ordering::Relaxed);
                    out.push(Failure { key: format!("lifecycle:{}", k), case: json!({"history": class_string(h), "mode": "process-pipelined"}), detail: format!("history {} (pipelined): {}", class_string(h), d) });
                }
            }
            out
        })
        .collect();
    let n_a = hist.len() as u64;
    let t_a = rep.start.elapsed().as_secs_f64();
    fails.extend(fa);
    // (b)
    let short = all_histories(tier.pick(2, 3));
    let prefix_cases: Vec<(Vec<Msg>, usize)> = short
        .iter()
        .flat_map(|h| {
            let lens: Vec<usize> = history_json(h).iter().map(|m| frame(m).len()).collect();
            let total: usize = lens.iter().sum();
            // (an end of input inside a frame takes the binary ~65 ms: error report)
            let step = match (tier, h.len()) {
                (_, 0..=1) => 1,
                (Tier::Quick, _) => 6,
                (Tier::Thorough, 2) => 1,
                (Tier::Thorough, _) => 7,
            };
            let mut cuts: Vec<usize> = (0..=total).step_by(step).collect();
            // every frame boundary and the bytes next to it
            let mut acc = 0;
            for l in &lens {
                acc += l;
                cuts.extend([acc.saturating_sub(1), acc, (acc + 1).min(total)]);
            }
            cuts.sort();
            cuts.dedup();
            cuts.into_iter().map(move |c| (h.clone(), c)).collect::<Vec<_>>()
        })
        .collect();
    let fb: Vec<Failure> = prefix_cases
        .par_iter()
        .filter(|_| !saturated())
        .filter_map(|(h, c)| eval_prefix(h, *c).map(|x| { FAILED.fetch_add(1, Ordering::Relaxed); x }).map(|(k, d)| Failure { key: format!("lifecycle:{}", k), case: json!({"history": class_string(h), "prefix_bytes": c, "mode": "process-prefix-eof"}), detail: format!("history {} cut at {}: {}", class_string(h), c, d) }))
        .collect();
    let n_b = prefix_cases.len() as u64;
    let t_b = rep.start.elapsed().as_secs_f64();
    fails.extend(fb);
    // (c)
    let bound = tier.pick(2, 3);
    let safe: Vec<Vec<Msg>> = all_histories(tier.pick(4, 5)).into_iter().filter(|h| expect(h).exit_code != Some(1)).collect();
    let long = tier.pick(4, 5);
    let execs = AtomicU64::new(0);
    let decisions = AtomicU64::new(0);
    let multi = AtomicU64::new(0);
    let fc: Vec<Failure> = safe
        .par_iter()
        .filter_map(|h| {
            let mut first = None;
            // the longest histories are explored one bound lower and with the real capacities only
            let (b, clamps): (usize, &[Option<usize>]) = if h.len() >= long { (bound - 1, &[None]) } else { (bound, &[None, Some(1)]) };
            for clamp in clamps.iter().cloned() {
                let (e, d, outs, f) = eval_schedules(h, b, clamp);
                execs.fetch_add(e, Ordering::Relaxed);
                decisions.fetch_add(d, Ordering::Relaxed);
                if outs > 1 {
                    multi.fetch_add(1, Ordering::Relaxed);
                }
                if let Some((k, det, case)) = f {
                    first = Some(Failure { key: format!("lifecycle:{}", k), case, detail: format!("history {}: {}", class_string(h), det) });
                    break;
                }
            }
            first
        })
        .collect();
    fails.extend(fc);
    // (d) forms of the request id: LSP allows integers (32 bit) and strings; whatever the
    // form, the response carries the same id - in every phase, and the session goes on
    let id_forms: Vec<Value> = vec![json!(0), json!(7), json!(2147483647), json!(-1), json!("abc"), json!("7"), json!("")];
    let phases = ["before-initialize", "main", "after-shutdown"];
    let id_cases: Vec<(Value, &str)> = id_forms.iter().flat_map(|i| phases.iter().map(move |p| (i.clone(), *p))).collect();
    let fd: Vec<Failure> = id_cases
        .par_iter()
        .filter_map(|(id, phase)| {
            eval_id_form(id, phase).map(|(k, d)| Failure { key: format!("lifecycle:{}", k), case: json!({"id": id, "phase": phase, "mode": "process-id-form"}), detail: d })
        })
        .collect();
    let n_d = id_cases.len() as u64 + 5;
    fails.extend(fd);
    for ending in ["shutdown-exit", "exit", "end-of-input", "lock-step"] {
        if let Some((k, d)) = eval_large_response(ending) {
            fails.push(Failure { key: format!("lifecycle:{}", k), case: json!({"mode": "process-large-response", "ending": ending}), detail: d });
        }
    }
    if let Some((k, d)) = eval_unknown_method_names() {
        fails.push(Failure { key: format!("lifecycle:{}", k), case: json!({"mode": "process-unknown-method-names"}), detail: d });
    }
    rep.extra.insert("id_form_sessions".into(), json!(n_d));
    rep.states = n_a + n_b + n_d + safe.len() as u64;
    rep.transitions = 2 * n_a + n_b + n_d + execs.load(Ordering::Relaxed);
    rep.evaluations = rep.transitions;
    rep.traces_validated = 2 * n_a + n_b;
    rep.distinct_nontrivial = n_a;
    rep.rule = "all message histories over {initialize, initialized, supported request, unknown request, unknown $/ request, didOpen, unknown notification, shutdown, exit} up to the length bound against the release binary, once with a lock-step client and once fully pipelined in one write (then end of input): responses per the lifecycle automaton, exit status, prompt exit; every byte prefix of every short session followed by end of input; in process (real run(), tokio shim) every history that does not reach process::exit(1), delivered pipelined, under every schedule within the preemption bound with the real channel capacities and with capacities clamped to 1: no deadlock, run() returns Ok, every expected response present at the instant run() returns, one distinct output".into();
    rep.bounds = json!({"seconds_process_histories": t_a, "seconds_prefixes": t_b - t_a, "seconds_schedules": rep.start.elapsed().as_secs_f64() - t_b, "history_length": tier.pick(4,5), "histories_process": n_a, "prefix_cases": n_b, "prefix_history_length": tier.pick(2,3), "histories_in_process": safe.len(), "preemption_bound": bound, "preemption_bound_longest_histories": bound - 1, "schedules_explored": execs.load(Ordering::Relaxed), "scheduling_decisions": decisions.load(Ordering::Relaxed), "histories_with_schedule_dependent_output": multi.load(Ordering::Relaxed)});
    rep.sample(json!({"history": "IiRSX", "expected": "init result, served, null; exit status 0"}));
    rep.sample(json!({"history": "IX", "expected": "init result; exit status 1"}));
    rep.assumptions = vec![
        "lifecycle automaton lifecycle.rs; where the property is silent (ordinary requests between initialize and initialized) both rejection and service are accepted".into(),
        "interleavings are explored at channel / stdio operations of cooperatively scheduled tasks (complete for the multi-threaded runtime while tasks share only channels)".into(),
        "wall-clock time only for hang detection (10 s, re-run alone before it counts)".into(),
    ];
    if saturated() {
        rep.exhaustive = false;
        rep.extra.insert("fail_fast".into(), json!(format!("process runs were skipped after {} failing cases", FAIL_FAST)));
    }
    rep.failures = fails;
    rep
}

fn parse_history(s: &str) -> Vec<Msg> {
    s.chars()
        .filter_map(|c| match c {
            'I' => Some(Msg::Initialize),
            'i' => Some(Msg::Initialized),
            'R' => Some(Msg::Supported),
            'U' => Some(Msg::UnknownRequest),
            '$' => Some(Msg::DollarRequest),
            'D' => Some(Msg::DocNotification),
            'n' => Some(Msg::UnknownNotification),
            'S' => Some(Msg::Shutdown),
            'X' => Some(Msg::Exit),
            _ => None,
        })
        .collect()
}

pub fn replay(case: &Value) -> Vec<Failure> {
    let h = parse_history(case["history"].as_str().unwrap_or(""));
    if case["mode"] == json!("process-large-response") {
        return eval_large_response(case["ending"].as_str().unwrap_or("exit")).map(|(k, d)| vec![Failure { key: format!("lifecycle:{}", k), case: case.clone(), detail: d }]).unwrap_or_default();
    }
    if case["mode"] == json!("process-unknown-method-names") {
        return eval_unknown_method_names().map(|(k, d)| vec![Failure { key: format!("lifecycle:{}", k), case: case.clone(), detail: d }]).unwrap_or_default();
    }
    if case["mode"] == json!("process-id-form") {
        return eval_id_form(&case["id"], case["phase"].as_str().unwrap_or("main")).map(|(k, d)| vec![Failure { key: format!("lifecycle:{}", k), case: case.clone(), detail: d }]).unwrap_or_default();
    }
    let r = if let Some(c) = case.get("prefix_bytes").and_then(|v| v.as_u64()) {
        eval_prefix(&h, c as usize)
    } else if let Some(s) = case.get("schedule").and_then(|v| v.as_array()) {
        let sch: Vec<usize> = s.iter().filter_map(|v| v.as_u64().map(|x| x as usize)).collect();
        let clamp = case["clamp"].as_u64().map(|x| x as usize);
        let env = EnvConfig { chunks: history_json(&h).iter().map(frame).collect(), feeder_task: false, clamp, stdout_cap: None, delay_bounded: false };
        match sched::replay(&env, &sch) {
            Err(e) => Some(("schedule:abort".to_string(), e)),
            Ok(o) => {
                if let Some(e) = o.error.clone().or(o.frame_error.clone()) {
                    Some(("schedule:run-returned-error".to_string(), e))
                } else {
                    check_responses(&o.frames, &expect(&h), true).err()
                }
            }
        }
    } else if case["mode"] == json!("process-pipelined") {
        eval_pipelined(&h)
    } else {
        eval_process(&h)
    };
    r.map(|(k, d)| vec![Failure { key: format!("lifecycle:{}", k), case: case.clone(), detail: d }]).unwrap_or_default()
}
