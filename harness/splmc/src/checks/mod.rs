pub mod c06;
pub mod c07;
