pub mod c01;
pub mod c02;
pub mod c04;
pub mod c06;
pub mod c07;
