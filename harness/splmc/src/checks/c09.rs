//! C09 — formatting never changes the program.  E-INPUT.
use crate::checks::c04::variants;
use crate::checks::fmt::*;
use crate::common::*;
use crate::gen::ast::*;
use crate::gen::layout::*;
use crate::progs;
use crate::reflex;
use rayon::prelude::*;
use serde_json::{json, Value};
use std::sync::atomic::{AtomicU64, Ordering};

pub fn eval_text(text: &str, opts: &[Opt]) -> Vec<(String, String, Opt)> {
    let mut out = vec![];
    let answers = match format_requests(text, opts) {
        Ok(a) => a,
        Err(e) => return vec![("error".into(), e, opts[0])],
    };
    let old_toks = reflex::lex(text);
    let old_nc = non_comment(&old_toks);
    let mut reopened: Option<(String, Vec<(String, i64, i64)>)> = None;
    for (a, o) in answers.iter().zip(opts) {
        let new_text = match apply_whole_document_edit(text, a) {
            Ok(t) => t,
            Err((k, d)) => {
                out.push((k, d, *o));
                continue;
            }
        };
        if a.edits.is_some() && new_text == text {
            out.push(("edit-returned-although-nothing-changes".into(), String::new(), *o));
        }
        let new_nc = non_comment(&reflex::lex(&new_text));
        if new_nc != old_nc {
            let i = new_nc.iter().zip(&old_nc).position(|(a, b)| a != b).unwrap_or(new_nc.len().min(old_nc.len()));
            out.push((
                "token-sequence-changed".into(),
                format!("token #{}: {:?} -> {:?}\nnew text: {:?}", i, old_nc.get(i), new_nc.get(i), new_text),
                *o,
            ));
            continue;
        }
        // diagnostics are option independent: re-open once (default option) and compare
        if *o == DEFAULT_OPT || opts.len() == 1 {
            let old_d = diag_token_spans(text, &a.diagnostics);
            let new_d = match &reopened {
                Some((t, d)) if *t == new_text => d.clone(),
                _ => match format_requests(&new_text, &[]) {
                    Ok(_) => {
                        // format_requests with no options still opens the text; fetch diagnostics
                        let mut s = crate::session::Session::new(true);
                        s.open(crate::session::URI, &new_text);
                        let oo = s.run();
                        let d = oo
                            .notifications("textDocument/publishDiagnostics")
                            .last()
                            .map(|n| n["params"]["diagnostics"].as_array().cloned().unwrap_or_default())
                            .unwrap_or_default();
                        let v = diag_token_spans(&new_text, &d);
                        reopened = Some((new_text.clone(), v.clone()));
                        v
                    }
                    Err(e) => {
                        out.push(("error".into(), e, *o));
                        continue;
                    }
                },
            };
            if old_d != new_d {
                out.push(("diagnostics-changed".into(), format!("before {:?}\nafter {:?}\nnew text {:?}", old_d, new_d, new_text), *o));
            }
        }
    }
    out
}

pub fn run(tier: Tier) -> Report {
    let mut rep = Report::new("C09", tier);
    let items = progs::syntactic_family(tier);
    let evals = AtomicU64::new(0);
    let texts = AtomicU64::new(0);
    let opts_all = all_opts();
    let step = tier.pick(2, 1);
    let fails: Vec<Failure> = items
        .par_iter()
        .enumerate()
        .filter(|(i, it)| i % step == 0 || progs::always_included(it.family))
        .flat_map_iter(|(i, it)| {
            let pr = print_program(&it.program);
            let mut out = vec![];
            let mut vs = variants(&pr, it.focus_decl, false);
            // one more text per program: non-ASCII comment on the last line, no final newline
            vs.push(crate::checks::c04::Variant { layout: Layout::Spaces, gaps: vec![usize::MAX] });
            for (vi, v) in vs.into_iter().enumerate() {
                // comments only in leading positions are part of the C09 statement; arbitrary
                // gaps belong to C10, they are still formatted here (token sequence must hold)
                let mut r = render_default(&pr, v.layout, if v.gaps == [usize::MAX] { &[] } else { &v.gaps });
                if v.gaps == [usize::MAX] {
                    r.text.push_str(" // \u{1f600}\u{e9} end");
                }
                let opts: Vec<Opt> = if (i + vi) % 7 == 0 { opts_all.clone() } else { vec![DEFAULT_OPT] };
                texts.fetch_add(1, Ordering::Relaxed);
                evals.fetch_add(opts.len() as u64, Ordering::Relaxed);
                for (k, d, o) in eval_text(&r.text, &opts) {
                    if out.len() < 3 {
                        out.push(Failure {
                            key: format!("format:{}", k),
                            case: json!({"text": r.text, "options": o.json(), "family": it.family}),
                            detail: d,
                        });
                    }
                }
            }
            out
        })
        .collect();
    // programs far beyond the small bounds (2 500 / 9 000 statements): one line of more than
    // 65 535 columns (Minimal), more than 65 535 lines (token per line), lone CR line ends
    let mut fails = fails;
    {
        let sizes: &[usize] = if tier == Tier::Quick { &[2500] } else { &[2500, 9000] };
        let cases: Vec<(usize, Layout)> = sizes.iter().flat_map(|n| [Layout::Minimal, Layout::Lines, Layout::Cr, Layout::Pretty].into_iter().map(move |l| (*n, l))).collect();
        let hf: Vec<Failure> = cases
            .par_iter()
            .flat_map_iter(|(n, layout)| {
                let pr = print_program(&progs::scale_program(40, 40, *n));
                let r = render_default(&pr, *layout, &[]);
                texts.fetch_add(1, Ordering::Relaxed);
                evals.fetch_add(2, Ordering::Relaxed);
                eval_text(&r.text, &[DEFAULT_OPT, Opt { tab_size: 1, insert_spaces: false }])
                    .into_iter()
                    .take(2)
                    .map(|(k, d, o)| Failure { key: format!("format:{}:huge-document", k), case: json!({"huge": {"statements": n}, "layout": format!("{:?}", layout), "options": o.json()}), detail: truncate(&d, 800) })
                    .collect::<Vec<_>>()
            })
            .collect();
        fails.extend(hf);
    }
    rep.states = texts.load(Ordering::Relaxed);
    rep.transitions = evals.load(Ordering::Relaxed);
    rep.evaluations = rep.transitions;
    rep.traces_validated = rep.transitions;
    rep.distinct_nontrivial = rep.states;
    rep.rule = "generated syntactically valid programs (typed or not; literal pool with hex in both cases and leading zeros, char literals) x 6 layouts x comment placements x formatting options (default for all, all 11 option values for every 7th text); oracle: null or one whole-document TextEdit, non-comment token kinds and literal values (independent lexer) unchanged, diagnostics after re-opening unchanged; distinct_nontrivial = distinct source texts".into();
    rep.bounds = json!({"derivations": items.len(), "options": opts_all.iter().map(|o| o.json()).collect::<Vec<_>>()});
    rep.sample(json!({"text": "proc main(){i:=0x0aF;}", "options": DEFAULT_OPT.json()}));
    rep.assumptions = vec!["token comparison by the independent lexer reflex; whole-document range by the LSP text model lsptext".into()];
    rep.failures = fails;
    rep
}

pub fn replay(case: &Value) -> Vec<Failure> {
    let generated;
    let text = if let Some(n) = case["huge"]["statements"].as_u64() {
        let pr = print_program(&progs::scale_program(40, 40, n as usize));
        generated = render_default(&pr, layout_by_name(case["layout"].as_str().unwrap_or("Lines")).unwrap_or(Layout::Lines), &[]).text;
        generated.as_str()
    } else {
        case["text"].as_str().unwrap_or("")
    };
    let o = Opt {
        tab_size: case["options"]["tabSize"].as_u64().unwrap_or(4) as u32,
        insert_spaces: case["options"]["insertSpaces"].as_bool().unwrap_or(true),
    };
    eval_text(text, &[o])
        .into_iter()
        .map(|(k, d, _)| Failure { key: format!("format:{}", k), case: case.clone(), detail: d })
        .collect()
}
