//! C20 — ordering, read-your-writes and document isolation under load.  E-SCHED.
//! Scenarios over several URIs, delivered fully pipelined to the real run() under every schedule
//! within the preemption bound (real and clamped channel capacities, bounded stdout), bursts of
//! hundreds of messages, and replay against the release binary.  Oracle: sequential
//! specification (per-URI text map); the expected answer for a text is what the implementation
//! itself answers in a fresh single-document session (differential).
use crate::common::*;
use crate::lsptext::{self, Change};
use crate::procdrv;
use crate::sched::{self, EnvConfig};
use crate::session::*;
use rayon::prelude::*;
use serde_json::{json, Value};
use std::collections::{BTreeMap, HashMap};
use std::sync::atomic::{AtomicU64, Ordering};
use std::sync::Mutex;
use std::time::Duration;

pub const URIS: &[&str] = &["file:///a.spl", "untitled:///a.spl", "file:///b.spl"];
pub const TEXTS: &[&str] = &["proc main() { }\n", "proc p() {\n}\nproc main() { i := 1; }\n"];
pub const METHODS: &[&str] = &["textDocument/foldingRange", "textDocument/hover", "textDocument/formatting"];

#[derive(Clone, Debug, PartialEq, Eq, Hash)]
pub enum Op {
    Open(usize, usize),
    /// change(uri, edit): edit 0 = insert a procedure at the start, 1 = delete the first line,
    /// 2 = replace the blank at 2:13 by a line feed, 3 = replace the line end of line 0 by a
    /// blank (2 and 3 keep every byte offset of TEXTS[1] but move its diagnostic to another line)
    Change(usize, usize),
    Close(usize),
    Request(usize, usize),
}

fn edit(k: usize) -> Change {
    match k {
        0 => Change { range: Some((0, 0, 0, 0)), text: "proc q() {\n}\n".into() },
        1 => Change { range: Some((0, 0, 1, 0)), text: String::new() },
        2 => Change { range: Some((2, 13, 2, 14)), text: "\n".into() },
        _ => Change { range: Some((0, 10, 1, 0)), text: " ".into() },
    }
}

fn edit_json(k: usize) -> Value {
    let c = edit(k);
    let r = c.range.unwrap();
    json!([{"range": {"start": {"line": r.0, "character": r.1}, "end": {"line": r.2, "character": r.3}}, "text": c.text}])
}

fn req_params(method: &str, uri: &str) -> Value {
    match method {
        "textDocument/hover" => json!({"textDocument": {"uri": uri}, "position": {"line": 0, "character": 6}}),
        m => doc_request_params(m, uri),
    }
}

pub fn alphabet(n_uris: usize, n_methods: usize, n_edits: usize) -> Vec<Op> {
    let mut v = vec![];
    for u in 0..n_uris {
        for t in 0..TEXTS.len() {
            v.push(Op::Open(u, t));
        }
        for e in 0..n_edits {
            v.push(Op::Change(u, e));
        }
        v.push(Op::Close(u));
        for m in 0..n_methods {
            v.push(Op::Request(u, m));
        }
    }
    v
}

pub fn scenarios(alpha: &[Op], max_len: usize) -> Vec<Vec<Op>> {
    let mut out = vec![];
    let mut frontier: Vec<Vec<Op>> = vec![vec![]];
    for _ in 0..max_len {
        let mut next = vec![];
        for s in &frontier {
            for o in alpha {
                let mut x = s.clone();
                x.push(o.clone());
                next.push(x);
            }
        }
        out.extend(next.iter().cloned());
        frontier = next;
    }
    // only scenarios that contain at least one request are informative for the response oracle;
    // the others are kept for the diagnostics oracle when they end in an open/change
    out
}

/// client capabilities that do NOT announce publishDiagnostics, in several spellings
pub fn caps_without_diagnostics(k: usize) -> Value {
    match k % 4 {
        0 => json!({}),
        1 => json!({"textDocument": {}}),
        2 => json!({"textDocument": {"hover": {"contentFormat": ["markdown"]}, "synchronization": {"didSave": true}}}),
        _ => json!({"textDocument": {"publishDiagnostics": null}, "workspace": {}}),
    }
}

pub fn to_messages(sc: &[Op], diagnostics: bool) -> (Vec<Value>, Vec<(i64, usize, usize)>) {
    // which spelling of "no diagnostics" a scenario uses depends on the scenario only
    let variant = sc.len() + sc.iter().map(|o| match o { Op::Open(u, t) => u + t, Op::Change(u, e) => u + e + 1, Op::Close(u) => u + 2, Op::Request(u, m) => u + m }).sum::<usize>();
    let mut s = if diagnostics { Session::new(true) } else { Session::with_capabilities(caps_without_diagnostics(variant)) };
    let mut reqs = vec![];
    for op in sc {
        match op {
            Op::Open(u, t) => s.open(URIS[*u], TEXTS[*t]),
            Op::Change(u, e) => s.change(URIS[*u], edit_json(*e)),
            Op::Close(u) => s.close(URIS[*u]),
            Op::Request(u, m) => {
                let id = s.request(METHODS[*m], req_params(METHODS[*m], URIS[*u]));
                reqs.push((id, *u, *m));
            }
        }
    }
    s.msgs.push(request(100_000, "shutdown", Value::Null));
    s.msgs.push(notification("exit", Value::Null));
    (s.msgs, reqs)
}

/// the implementation's own answer for (text, method) in a fresh single-document session
static ANSWERS: Mutex<Option<HashMap<(Option<String>, usize, usize), (Value, Value)>>> = Mutex::new(None);

fn fresh_answer(text: &Option<String>, uri: usize, method: usize) -> (Value, Value) {
    let key = (text.clone(), uri, method);
    if let Some(v) = ANSWERS.lock().unwrap().get_or_insert_with(HashMap::new).get(&key) {
        return v.clone();
    }
    let mut s = Session::new(true);
    if let Some(t) = text {
        s.open(URIS[uri], t);
    }
    let id = s.request(METHODS[method], req_params(METHODS[method], URIS[uri]));
    let o = s.run();
    let ans = o.responses().get(&id).map(|r| json!({"result": r.get("result"), "error": r.get("error")})).unwrap_or(json!("no answer"));
    let diag = o.notifications("textDocument/publishDiagnostics").last().map(|n| n["params"]["diagnostics"].clone()).unwrap_or(Value::Null);
    ANSWERS.lock().unwrap().get_or_insert_with(HashMap::new).insert(key, (ans.clone(), diag.clone()));
    (ans, diag)
}

pub struct Expected {
    /// responses in order: (id, answer)
    pub responses: Vec<(i64, Value)>,
    /// last diagnostics per URI (None = never published)
    pub last_diagnostics: BTreeMap<String, Value>,
}

pub fn model(sc: &[Op], reqs: &[(i64, usize, usize)]) -> Expected {
    let mut docs: BTreeMap<usize, String> = BTreeMap::new();
    let mut responses = vec![(0i64, Value::Null)]; // initialize, content not compared
    let mut last: BTreeMap<String, Value> = BTreeMap::new();
    let mut ri = 0;
    for op in sc {
        match op {
            Op::Open(u, t) => {
                docs.insert(*u, TEXTS[*t].to_string());
                last.insert(URIS[*u].to_string(), fresh_answer(&docs.get(u).cloned(), *u, 0).1);
            }
            Op::Change(u, e) => {
                if let Some(t) = docs.get(u).cloned() {
                    if let Some(n) = lsptext::apply(&t, &edit(*e)) {
                        docs.insert(*u, n);
                    }
                    last.insert(URIS[*u].to_string(), fresh_answer(&docs.get(u).cloned(), *u, 0).1);
                }
            }
            Op::Close(u) => {
                docs.remove(u);
            }
            Op::Request(u, m) => {
                let (id, _, _) = reqs[ri];
                ri += 1;
                responses.push((id, fresh_answer(&docs.get(u).cloned(), *u, *m).0));
            }
        }
    }
    responses.push((100_000, json!({"result": Value::Null, "error": Value::Null})));
    Expected { responses, last_diagnostics: last }
}

/// Err(kind, detail)
pub fn check_output(frames: &[Value], exp: &Expected, diagnostics: bool) -> Result<(), (String, String)> {
    let resp: Vec<&Value> = frames.iter().filter(|f| f.get("method").is_none()).collect();
    if resp.len() != exp.responses.len() {
        return Err(("response-count".into(), format!("{} responses for {} requests", resp.len(), exp.responses.len())));
    }
    for (k, (r, (id, want))) in resp.iter().zip(&exp.responses).enumerate() {
        if r.get("id").and_then(|v| v.as_i64()) != Some(*id) {
            return Err(("response-order".into(), format!("response #{} carries id {:?}, expected {}", k, r.get("id"), id)));
        }
        if k == 0 {
            continue;
        }
        let got = json!({"result": r.get("result"), "error": r.get("error")});
        if got != *want {
            return Err(("stale-or-foreign-answer".into(), format!("request id {}: got {}, the sequential specification gives {}", id, got, want)));
        }
    }
    let notes: Vec<&Value> = frames.iter().filter(|f| f.get("method").and_then(|m| m.as_str()) == Some("textDocument/publishDiagnostics")).collect();
    if !diagnostics {
        if !notes.is_empty() {
            return Err(("diagnostics-without-capability".into(), format!("{} publishDiagnostics notifications", notes.len())));
        }
        return Ok(());
    }
    let mut last: BTreeMap<String, Value> = BTreeMap::new();
    for n in notes {
        last.insert(n["params"]["uri"].as_str().unwrap_or("").to_string(), n["params"]["diagnostics"].clone());
    }
    if last != exp.last_diagnostics {
        return Err(("last-diagnostics".into(), format!("last diagnostics per URI {:?}, expected {:?}", last, exp.last_diagnostics)));
    }
    Ok(())
}

fn sc_string(sc: &[Op]) -> String {
    sc.iter()
        .map(|o| match o {
            Op::Open(u, t) => format!("open({},t{})", u, t),
            Op::Change(u, e) => format!("change({},e{})", u, e),
            Op::Close(u) => format!("close({})", u),
            Op::Request(u, m) => format!("req({},{})", u, METHODS[*m].trim_start_matches("textDocument/")),
        })
        .collect::<Vec<_>>()
        .join(" ")
}

fn sc_json(sc: &[Op]) -> Value {
    json!(sc
        .iter()
        .map(|o| match o {
            Op::Open(u, t) => json!(["open", u, t]),
            Op::Change(u, e) => json!(["change", u, e]),
            Op::Close(u) => json!(["close", u]),
            Op::Request(u, m) => json!(["request", u, m]),
        })
        .collect::<Vec<_>>())
}

fn uses_scheme_twins(sc: &[Op]) -> bool {
    let mut us = std::collections::BTreeSet::new();
    for o in sc {
        match o {
            Op::Open(u, _) | Op::Change(u, _) | Op::Close(u) | Op::Request(u, _) => {
                us.insert(*u);
            }
        }
    }
    us.contains(&0) && us.contains(&1)
}

pub fn eval_scenario(sc: &[Op], diagnostics: bool, bound: usize, clamp: Option<usize>, stdout_cap: Option<usize>, one_chunk: bool, delay_bounded: bool) -> (u64, Option<(String, String, Value)>) {
    let (msgs, reqs) = to_messages(sc, diagnostics);
    let exp = model(sc, &reqs);
    let chunks: Vec<Vec<u8>> = if one_chunk { vec![msgs.iter().flat_map(frame).collect()] } else { msgs.iter().map(frame).collect() };
    let env = EnvConfig { chunks, feeder_task: false, clamp, stdout_cap, delay_bounded };
    let e = sched::explore(&env, bound);
    let case = |s: &[usize]| json!({"scenario": sc_json(sc), "diagnostics": diagnostics, "bound": bound, "clamp": clamp, "stdout_cap": stdout_cap, "schedule": s});
    let twins = if uses_scheme_twins(sc) { ":uris-differing-in-scheme" } else { "" };
    if let Some((m, s)) = &e.abort {
        let kind = if m.contains("deadlock") { "deadlock" } else { "abort" };
        return (e.stats.executions, Some((format!("ordering:{}", kind), m.clone(), case(s))));
    }
    for (raw, (_, s, err)) in &e.outcomes {
        if let Some(er) = err {
            return (e.stats.executions, Some(("ordering:run-error".into(), er.clone(), case(s))));
        }
        match parse_frames(raw) {
            Err(er) => return (e.stats.executions, Some(("ordering:malformed-output".into(), er, case(s)))),
            Ok(fr) => {
                if let Err((k, d)) = check_output(&fr, &exp, diagnostics) {
                    return (e.stats.executions, Some((format!("ordering:{}{}", k, twins), format!("{}: {}", sc_string(sc), d), case(s))));
                }
            }
        }
    }
    (e.stats.executions, None)
}

fn burst(n: usize) -> Vec<Op> {
    let mut sc = vec![Op::Open(0, 0), Op::Open(2, 1)];
    for i in 0..n {
        sc.push(Op::Change(0, if i % 3 == 2 { 1 } else { 0 }));
        sc.push(Op::Request(0, 0));
        if i % 5 == 0 {
            sc.push(Op::Request(2, i % 2));
        }
    }
    sc
}

pub fn run(tier: Tier) -> Report {
    let mut rep = Report::new("C20", tier);
    start_watchdog(300);
    let execs = AtomicU64::new(0);
    let mut fails: Vec<Failure> = vec![];
    let mut parts = vec![];
    let mk = |k: String, d: String, c: Value| Failure { key: k, case: c, detail: d };
    // (a)+(b) all scenarios of the small alphabet, all schedules within the bound
    // quick: small alphabet (2 URIs incl. the scheme twins, 3 request kinds, 1 edit), <= 3 operations;
    // thorough: large alphabet (3 URIs, 2 edits) <= 3 operations at one bound more, plus the small
    // alphabet up to 4 operations at bound 1
    let small = alphabet(2, 3, 1);
    let large = alphabet(3, 3, 2);
    let bound = tier.pick(2, 3);
    let mut all: Vec<(Vec<Op>, usize)> = vec![]; // (scenario, bound for it)
    match tier {
        Tier::Quick => {
            for sc in scenarios(&small, 3) {
                let b = if sc.len() >= 3 { bound - 1 } else { bound };
                all.push((sc, b));
            }
        }
        Tier::Thorough => {
            for sc in scenarios(&large, 3) {
                let b = if sc.len() >= 3 { bound - 1 } else { bound };
                all.push((sc, b));
            }
            for sc in scenarios(&small, 4).into_iter().filter(|s| s.len() == 4) {
                all.push((sc, 1));
            }
        }
    }
    let alpha = if tier == Tier::Quick { small.clone() } else { large.clone() };
    let f: Vec<Failure> = all
        .par_iter()
        .filter_map(|(sc, b)| {
            let b = *b;
            let full = sc.len() <= 2;
            let configs: Vec<(usize, Option<usize>, bool)> = if full {
                vec![(b, None, true), (b, Some(1), true), (b - 1, Some(2), true), (b - 1, None, false)]
            } else {
                vec![(b, None, true), (b.saturating_sub(1), Some(1), true), (b.saturating_sub(1), None, false)]
            };
            for (b, clamp, diag) in configs {
                let (n, f) = eval_scenario(sc, diag, b, clamp, None, false, false);
                execs.fetch_add(n, Ordering::Relaxed);
                if let Some((k, d, c)) = f {
                    return Some(mk(k, d, c));
                }
            }
            None
        })
        .collect();
    // edit kinds: every sequence of <= 3 edits out of {insert a procedure, split a line, join two
    // lines} on the document with a diagnostic; the last two keep all byte offsets
    {
        let edits = [0usize, 2, 3];
        let mut seqs: Vec<Vec<usize>> = vec![vec![]];
        let mut scs: Vec<Vec<Op>> = vec![];
        for _ in 0..3 {
            seqs = seqs.iter().flat_map(|s| edits.iter().map(move |e| { let mut x = s.clone(); x.push(*e); x })).collect();
            for s in &seqs {
                let mut sc = vec![Op::Open(0, 1)];
                sc.extend(s.iter().map(|e| Op::Change(0, *e)));
                sc.push(Op::Request(0, 0));
                scs.push(sc);
            }
        }
        let fe: Vec<Failure> = scs
            .par_iter()
            .filter_map(|sc| {
                let (n, f) = eval_scenario(sc, true, 1, None, None, false, false);
                execs.fetch_add(n, Ordering::Relaxed);
                f.map(|(k, d, c)| mk(format!("{}:edit-kinds", k), d, c))
            })
            .collect();
        parts.push(json!({"part": "edit-kinds", "scenarios": scs.len(), "preemption_bound": 1, "failing": fe.len()}));
        fails.extend(fe);
        for sc in scs {
            all.push((sc, 1));
        }
    }
    let all: Vec<Vec<Op>> = all.into_iter().map(|(s, _)| s).collect();
    parts.push(json!({"part": "scenarios", "alphabet_ops": alpha.len(), "max_ops": 3, "extra_small_alphabet_4_operations": tier == Tier::Thorough, "scenarios": all.len(), "failing": f.len()}));
    fails.extend(f);
    // (c) bursts larger than the channel capacities, bounded stdout with a draining client
    // (delay-bounded: every deviation from the default schedule costs one, also at blocking
    // points - the non-preemptive choices alone are exponentially many for long sessions)
    let bursts: Vec<(usize, usize, Option<usize>, Option<usize>)> = vec![
        (40, 1, None, None),
        (40, 1, None, Some(64)),
        (tier.pick(6, 12), 2, None, Some(64)),
        (tier.pick(120, 200), tier.pick(0, 1), None, None),
        (tier.pick(120, 200), 0, None, Some(256)),
        (20, tier.pick(1, 2), Some(1), Some(32)),
        (8, tier.pick(2, 3), Some(2), None),
    ];
    let fb: Vec<Failure> = bursts
        .par_iter()
        .filter_map(|(n, b, clamp, cap)| {
            let sc = burst(*n);
            let (k, f) = eval_scenario(&sc, true, *b, *clamp, *cap, true, true);
            execs.fetch_add(k, Ordering::Relaxed);
            f.map(|(k, d, c)| mk(format!("{}:burst", k), truncate(&d, 600), json!({"burst": n, "bound": b, "clamp": clamp, "stdout_cap": cap, "schedule": c["schedule"]})))
        })
        .collect();
    parts.push(json!({"part": "bursts", "configs": bursts.iter().map(|b| json!({"changes_and_requests": b.0, "delay_bound": b.1, "clamp": b.2, "stdout_cap": b.3})).collect::<Vec<_>>(), "failing": fb.len()}));
    fails.extend(fb);
    // conformance: scenarios and bursts against the release binary, fully pipelined in one write
    let conf: Vec<Vec<Op>> = all.iter().step_by(tier.pick(7, 3)).cloned().chain([burst(40), burst(250)]).collect();
    let fc: Vec<Failure> = conf
        .par_iter()
        .filter_map(|sc| {
            let (msgs, reqs) = to_messages(sc, true);
            let exp = model(sc, &reqs);
            let bytes: Vec<u8> = msgs.iter().flat_map(frame).collect();
            let o = procdrv::run_chunks(&[bytes], false, Duration::from_secs(20));
            let twins = if uses_scheme_twins(sc) { ":uris-differing-in-scheme" } else { "" };
            let bad = if o.timed_out {
                Some(("binary:hang".to_string(), "no exit within 20 s".to_string()))
            } else if let Some(e) = &o.frame_error {
                Some(("binary:malformed-output".to_string(), e.clone()))
            } else if o.exit_code != Some(0) {
                Some(("binary:exit-status".to_string(), format!("{:?}", o.exit_code)))
            } else {
                check_output(&o.frames, &exp, true).err().map(|(k, d)| (format!("binary:{}{}", k, twins), d))
            };
            bad.map(|(k, d)| mk(format!("ordering:{}", k), truncate(&format!("{}: {}", truncate(&sc_string(sc), 200), d), 800), json!({"scenario": if sc.len() > 12 { Value::Null } else { sc_json(sc) }, "burst": if sc.len() > 12 { json!(sc.len()) } else { Value::Null }, "mode": "process"})))
        })
        .collect();
    parts.push(json!({"part": "binary-conformance", "sessions": conf.len(), "failing": fc.len()}));
    fails.extend(fc);
    // a burst of changes without any request in between: 100 / 500, in process and binary
    for binary in [false, true] {
        let n = tier.pick(100, 500);
        execs.fetch_add(1, Ordering::Relaxed);
        let bad = eval_change_burst(n, binary);
        parts.push(json!({"part": "change-burst", "changes": n, "binary": binary, "failing": bad.is_some() as u32}));
        if let Some((k, d)) = bad {
            fails.push(mk(format!("ordering:{}change-burst:{}", if binary { "binary:" } else { "" }, k), d, json!({"change_burst": {"n": n, "binary": binary}, "mode": if binary { "process" } else { "in-process" }})));
        }
    }
    // a request behind seconds of queued analysis work (250 KB document, 120 / 300 changes)
    {
        let n = tier.pick(120, 300);
        let t0 = std::time::Instant::now();
        execs.fetch_add(1, Ordering::Relaxed);
        let bad = eval_big_document_burst(n);
        parts.push(json!({"part": "big-document-burst", "changes": n, "seconds": t0.elapsed().as_secs_f64(), "failing": bad.is_some() as u32}));
        if let Some((k, d)) = bad {
            fails.push(mk(format!("ordering:binary:big-document-burst:{}", k), d, json!({"big_document_burst": n, "mode": "process"})));
        }
    }
    // many documents at once: 40 (quick) / 200 (thorough), in process and against the binary
    for binary in [false, true] {
        let n = tier.pick(40, 200);
        execs.fetch_add(1, Ordering::Relaxed);
        let bad = eval_many_documents(n, binary);
        parts.push(json!({"part": "many-documents", "documents": n, "binary": binary, "failing": bad.is_some() as u32}));
        if let Some((k, d)) = bad {
            fails.push(mk(format!("ordering:{}many-documents:{}", if binary { "binary:" } else { "" }, k), d, json!({"many_documents": {"n": n, "binary": binary}, "mode": if binary { "process" } else { "in-process" }})));
        }
    }
    // a slow client: about half a MB of responses, nothing is read for 1 s (the pipe fills up, the
    // responder blocks, the channels fill up, the reader loop blocks), then 2 KiB every 5 ms;
    // every response must arrive, in order, also those queued when shutdown/exit are processed
    {
        // (200 procedures: every fold answer is larger than 8 KiB)
        let n_procs = 200;
        let n_reqs = tier.pick(70, 300);
        for graceful in [true, false] {
        let (bad, out_bytes) = eval_slow_reader(n_procs, n_reqs, graceful);
        execs.fetch_add(1, Ordering::Relaxed);
        parts.push(json!({"part": "slow-reader", "requests": n_reqs, "response_bytes": out_bytes, "reader_delay_ms": 1000, "reader_pace": "2 KiB / 5 ms", "ends_with_shutdown": graceful, "failing": bad.is_some() as u32}));
        if let Some((k, d)) = bad {
            fails.push(mk(format!("ordering:binary:slow-reader:{}{}", k, if graceful { "" } else { ":exit-without-shutdown" }), d, json!({"slow_reader": {"procedures": n_procs, "requests": n_reqs, "delay_ms": 1000, "graceful": graceful}, "mode": "process"})));
        }
        }
    }
    rep.states = all.len() as u64 + bursts.len() as u64;
    rep.transitions = execs.load(Ordering::Relaxed) + conf.len() as u64;
    rep.evaluations = rep.transitions;
    rep.traces_validated = conf.len() as u64;
    rep.distinct_nontrivial = all.iter().filter(|s| s.iter().any(|o| matches!(o, Op::Request(..)))).count() as u64;
    rep.rule = "all scenarios up to the operation bound over {open(u,t1|t2), change(u,e), close(u), request(u, foldingRange|hover|formatting)} on URIs incl. two that differ only in the scheme, delivered fully pipelined to the real run(); every schedule within the preemption bound with the real channel capacities (32) and capacities clamped to 1 and 2, with and without the publishDiagnostics capability; bursts of 40..200 change+request pairs (larger than the channel capacities) with unbounded and bounded stdout; sequential specification as oracle (responses in request order and equal to the fresh single-document answer for the model text, last diagnostics per URI, none without capability); replay of scenarios and bursts (up to 250 change+request pairs) against the release binary; distinct_nontrivial = scenarios containing a request".into();
    rep.bounds = json!({"parts": parts, "preemption_bound": bound, "schedules_explored": execs.load(Ordering::Relaxed)});
    rep.sample(json!({"scenario": "open(0,t0) change(0,e0) req(0,foldingRange)", "expected": "the fold list of the changed text"}));
    rep.assumptions = vec![
        "tasks share nothing but tokio channels (audited below); interleavings are explored at channel and stdio operations".into(),
        "capacity clamping abstracts the two channel constants of run(); the code depends on them only through 'send blocks when full'".into(),
        "differential oracle: the implementation's own single-document answers (feature correctness is C09-C17's business)".into(),
    ];
    // audit: shared-memory primitives in lsp4spl/src would invalidate the granularity argument
    let src = verif_dir().join("harness/lspcore/src");
    let mut hits = vec![];
    fn walk(p: &std::path::Path, hits: &mut Vec<String>) {
        if let Ok(rd) = std::fs::read_dir(p) {
            for e in rd.flatten() {
                let path = e.path();
                if path.is_dir() {
                    if path.file_name().map(|n| n == "tests").unwrap_or(false) {
                        continue;
                    }
                    walk(&path, hits);
                } else if path.extension().map(|x| x == "rs").unwrap_or(false) {
                    if let Ok(t) = std::fs::read_to_string(&path) {
                        for pat in ["Arc<", "Mutex", "RwLock", "static mut", "Atomic", "unsafe ", "thread_local", "lazy_static", "OnceCell", "OnceLock"] {
                            if t.contains(pat) {
                                hits.push(format!("{}:{}", path.file_name().unwrap().to_string_lossy(), pat));
                            }
                        }
                    }
                }
            }
        }
    }
    walk(&src, &mut hits);
    if !hits.is_empty() {
        rep.assumptions.push(format!("WEAKENED: shared-memory primitives found in lsp4spl sources ({:?}); task-level interleaving at channel operations may not cover all behaviours of the multi-threaded runtime", hits));
    }
    rep.extra.insert("shared_memory_audit_hits".into(), json!(hits));
    rep.failures = fails;
    rep
}

/// Many documents at once (beyond the two or three of the scenario alphabet): `n` documents
/// are opened, each is changed, each is asked for its folding ranges (round robin, so that
/// consecutive messages always concern different documents), half of them are closed and
/// asked again; everything in one write. Every answer must describe its own document.
pub fn eval_many_documents(n: usize, binary: bool) -> Option<(String, String)> {
    let uri = |k: usize| format!("file:///doc{}.spl", k);
    let proc_text = |k: usize, i: usize| format!("proc p{}x{}() {{\n}}\n", k, i);
    let mut s = Session::new(true);
    for k in 0..n {
        let t: String = (0..k % 3 + 1).map(|i| proc_text(k, i)).collect();
        s.open(&uri(k), &t);
    }
    for k in 0..n {
        s.change(&uri(k), json!([{"range": {"start": {"line": 0, "character": 0}, "end": {"line": 0, "character": 0}}, "text": proc_text(k, 99)}]));
    }
    let mut want: Vec<(i64, Value)> = vec![];
    for k in 0..n {
        let id = s.request(METHODS[0], req_params(METHODS[0], &uri(k)));
        let folds: Vec<Value> = (0..k % 3 + 2).map(|i| json!({"startLine": 2 * i, "endLine": 2 * i + 1})).collect();
        want.push((id, json!(folds)));
    }
    for k in (0..n).step_by(2) {
        s.close(&uri(k));
    }
    for k in 0..n {
        let id = s.request(METHODS[0], req_params(METHODS[0], &uri(k)));
        let folds: Vec<Value> = if k % 2 == 0 { vec![] } else { (0..k % 3 + 2).map(|i| json!({"startLine": 2 * i, "endLine": 2 * i + 1})).collect() };
        // a closed document is unknown: null (or no ranges)
        want.push((id, if k % 2 == 0 { Value::Null } else { json!(folds) }));
    }
    s.msgs.push(request(100_000, "shutdown", Value::Null));
    s.msgs.push(notification("exit", Value::Null));
    let frames: Vec<Value> = if binary {
        let bytes: Vec<u8> = s.msgs.iter().flat_map(frame).collect();
        let o = procdrv::run_chunks(&[bytes], false, Duration::from_secs(30));
        if o.timed_out {
            return Some(("hang".into(), "no exit within 30 s".into()));
        }
        if let Some(e) = o.frame_error {
            return Some(("malformed-output".into(), e));
        }
        o.frames
    } else {
        let o = s.run();
        if let Some(e) = o.error.clone().or(o.frame_error.clone()) {
            return Some(("error".into(), e));
        }
        o.frames
    };
    let answered: Vec<i64> = frames.iter().filter(|f| f.get("method").is_none()).filter_map(|f| f["id"].as_i64()).collect();
    let ids: Vec<i64> = std::iter::once(0).chain(want.iter().map(|w| w.0)).chain(std::iter::once(100_000)).collect();
    if answered != ids {
        return Some(("response-order".into(), format!("{} responses, expected {} (in request order)", answered.len(), ids.len())));
    }
    for (id, w) in &want {
        let got = frames.iter().find(|f| f.get("method").is_none() && f["id"].as_i64() == Some(*id)).map(|f| f["result"].clone()).unwrap_or(json!("missing"));
        let norm = |v: &Value| -> Value {
            match v {
                Value::Null => json!([]),
                Value::Array(a) => json!(a.iter().map(|x| json!({"startLine": x["startLine"], "endLine": x["endLine"]})).collect::<Vec<_>>()),
                o => o.clone(),
            }
        };
        if norm(&got) != norm(w) {
            return Some(("stale-or-foreign-answer".into(), format!("request {}: got {}, expected {}", id, got, w)));
        }
    }
    None
}

/// A request pipelined behind the didOpen of a 250 KB document and `n` changes of it (seconds
/// of analysis in front of the request): it is answered from the final text, however long it
/// has to wait. Against the binary.
pub fn eval_big_document_burst(n: usize) -> Option<(String, String)> {
    let pr = crate::gen::ast::print_program(&crate::progs::scale_program(40, 40, 9000));
    let text = crate::gen::layout::render_plain(&pr.toks, crate::gen::layout::Layout::Pretty).text;
    let mut s = Session::new(true);
    s.open(URIS[0], &text);
    for _ in 0..n {
        s.change(URIS[0], json!([{"range": {"start": {"line": 0, "character": 0}, "end": {"line": 0, "character": 0}}, "text": " "}]));
    }
    // `type T0 = ...` is the first line: after n blanks the name stands at column 5 + n
    let id = s.request(METHODS[1], json!({"textDocument": {"uri": URIS[0]}, "position": {"line": 0, "character": 5 + n}}));
    s.msgs.push(request(100_000, "shutdown", Value::Null));
    s.msgs.push(notification("exit", Value::Null));
    let bytes: Vec<u8> = s.msgs.iter().flat_map(frame).collect();
    let o = procdrv::run_chunks(&[bytes], false, Duration::from_secs(120));
    if o.timed_out {
        return Some(("hang".into(), "no exit within 120 s".into()));
    }
    if let Some(e) = o.frame_error {
        return Some(("malformed-output".into(), e));
    }
    let got = o.frames.iter().find(|f| f.get("method").is_none() && f["id"].as_i64() == Some(id)).map(|f| f["result"].clone()).unwrap_or(json!("missing"));
    if !got["contents"]["value"].as_str().map(|v| v.contains("T0")).unwrap_or(false) {
        return Some(("stale-or-foreign-answer".into(), format!("hover on T0 behind {} changes of a {} byte document: {}", n, text.len(), truncate(&got.to_string(), 200))));
    }
    let published = o.frames.iter().filter(|f| f["method"] == json!("textDocument/publishDiagnostics")).count();
    if published != n + 1 {
        return Some(("diagnostics-lost".into(), format!("{} publishDiagnostics notifications, expected {}", published, n + 1)));
    }
    None
}

/// A burst of `n` consecutive didChange notifications (more than the channel capacities, no
/// request in between that would let the queues drain), then one request: the answer must
/// describe the document after ALL changes (every change inserts a procedure at the start).
pub fn eval_change_burst(n: usize, binary: bool) -> Option<(String, String)> {
    let mut s = Session::new(true);
    s.open(URIS[0], "proc main() {\n}\n");
    for k in 0..n {
        s.change(URIS[0], json!([{"range": {"start": {"line": 0, "character": 0}, "end": {"line": 0, "character": 0}}, "text": format!("proc b{}() {{\n}}\n", k)}]));
    }
    let id = s.request(METHODS[0], req_params(METHODS[0], URIS[0]));
    s.msgs.push(request(100_000, "shutdown", Value::Null));
    s.msgs.push(notification("exit", Value::Null));
    let frames: Vec<Value> = if binary {
        let bytes: Vec<u8> = s.msgs.iter().flat_map(frame).collect();
        let o = procdrv::run_chunks(&[bytes], false, Duration::from_secs(30));
        if o.timed_out {
            return Some(("hang".into(), "no exit within 30 s".into()));
        }
        if let Some(e) = o.frame_error {
            return Some(("malformed-output".into(), e));
        }
        o.frames
    } else {
        let o = s.run();
        if let Some(e) = o.error.clone().or(o.frame_error.clone()) {
            return Some(("error".into(), e));
        }
        o.frames
    };
    let got = frames.iter().find(|f| f.get("method").is_none() && f["id"].as_i64() == Some(id)).map(|f| f["result"].clone()).unwrap_or(json!("missing"));
    let folds = got.as_array().map(|a| a.len()).unwrap_or(usize::MAX);
    if folds != n + 1 {
        return Some(("changes-lost".into(), format!("{} folding ranges after {} changes that each insert a procedure (expected {}): {}", folds, n, n + 1, truncate(&got.to_string(), 200))));
    }
    let published = frames.iter().filter(|f| f["method"] == json!("textDocument/publishDiagnostics")).count();
    if published != n + 1 {
        return Some(("diagnostics-lost".into(), format!("{} publishDiagnostics notifications, expected {}", published, n + 1)));
    }
    None
}

/// a slow client (see run()): Some((kind, detail)) on failure, and the number of output bytes
pub fn eval_slow_reader(n_procs: usize, n_reqs: usize, graceful: bool) -> (Option<(String, String)>, usize) {
    let text: String = (0..n_procs).map(|i| format!("proc p{}() {{\n}}\n", i)).collect();
    let mut s = Session::new(true);
    s.open(URIS[0], &text);
    // 150 changes first (a blank in front, the folds stay the same): with the diagnostics
    // capability each one queues a notification behind the blocked responder
    for _ in 0..150 {
        s.change(URIS[0], json!([{"range": {"start": {"line": 0, "character": 0}, "end": {"line": 0, "character": 0}}, "text": " "}]));
    }
    let ids: Vec<i64> = (0..n_reqs).map(|_| s.request(METHODS[0], req_params(METHODS[0], URIS[0]))).collect();
    if graceful {
        s.msgs.push(request(100_000, "shutdown", Value::Null));
    }
    s.msgs.push(notification("exit", Value::Null));
    let bytes: Vec<u8> = s.msgs.iter().flat_map(frame).collect();
    let o = procdrv::run_slow_reader(bytes, Duration::from_millis(1000), Some((2048, Duration::from_millis(5))), Duration::from_secs(60));
    let answered: Vec<i64> = o.frames.iter().filter(|f| f.get("method").is_none()).filter_map(|f| f["id"].as_i64()).collect();
    let want: Vec<i64> = std::iter::once(0).chain(ids.iter().cloned()).chain(if graceful { Some(100_000) } else { None }).collect();
    let full = o.frames.iter().filter(|f| f.get("method").is_none() && f["result"].as_array().map(|a| a.len() == n_procs).unwrap_or(false)).count();
    let published = o.frames.iter().filter(|f| f["method"] == json!("textDocument/publishDiagnostics")).count();
    let bad = if o.timed_out {
        Some(("hang".to_string(), "no exit within 60 s after the client started to read".to_string()))
    } else if let Some(e) = &o.frame_error {
        Some(("malformed-output".to_string(), e.clone()))
    } else if answered != want {
        Some(("responses".to_string(), format!("{} of {} responses arrived (ids in order: {})", answered.len(), want.len(), answered.iter().zip(&want).all(|(a, b)| a == b))))
    } else if published != 151 {
        Some(("diagnostics".to_string(), format!("{} publishDiagnostics notifications, expected 151 (one for didOpen, one per didChange)", published)))
    } else if full != n_reqs {
        Some(("answers".to_string(), format!("{} of {} fold answers list all {} procedures", full, n_reqs, n_procs)))
    } else if o.exit_code != Some(if graceful { 0 } else { 1 }) {
        Some(("exit-status".to_string(), format!("{:?}", o.exit_code)))
    } else {
        None
    };
    (bad, o.raw.len())
}

pub fn replay(case: &Value) -> Vec<Failure> {
    if let Some(n) = case["big_document_burst"].as_u64() {
        return eval_big_document_burst(n as usize).map(|(k, d)| vec![Failure { key: format!("ordering:binary:big-document-burst:{}", k), case: case.clone(), detail: d }]).unwrap_or_default();
    }
    if let Some(cb) = case.get("change_burst") {
        return eval_change_burst(cb["n"].as_u64().unwrap_or(100) as usize, cb["binary"].as_bool().unwrap_or(true))
            .map(|(k, d)| vec![Failure { key: format!("ordering:change-burst:{}", k), case: case.clone(), detail: d }])
            .unwrap_or_default();
    }
    if let Some(md) = case.get("many_documents") {
        return eval_many_documents(md["n"].as_u64().unwrap_or(40) as usize, md["binary"].as_bool().unwrap_or(true))
            .map(|(k, d)| vec![Failure { key: format!("ordering:many-documents:{}", k), case: case.clone(), detail: d }])
            .unwrap_or_default();
    }
    if let Some(sr) = case.get("slow_reader") {
        let (bad, _) = eval_slow_reader(sr["procedures"].as_u64().unwrap_or(150) as usize, sr["requests"].as_u64().unwrap_or(150) as usize, sr["graceful"].as_bool().unwrap_or(true));
        return bad.map(|(k, d)| vec![Failure { key: format!("ordering:binary:slow-reader:{}", k), case: case.clone(), detail: d }]).unwrap_or_default();
    }
    let sc: Vec<Op> = if let Some(n) = case.get("burst").and_then(|v| v.as_u64()) {
        burst(n as usize)
    } else {
        case["scenario"]
            .as_array()
            .map(|a| {
                a.iter()
                    .filter_map(|o| {
                        let k = o[0].as_str()?;
                        let u = o[1].as_u64()? as usize;
                        Some(match k {
                            "open" => Op::Open(u, o[2].as_u64()? as usize),
                            "change" => Op::Change(u, o[2].as_u64()? as usize),
                            "close" => Op::Close(u),
                            _ => Op::Request(u, o[2].as_u64()? as usize),
                        })
                    })
                    .collect()
            })
            .unwrap_or_default()
    };
    let diagnostics = case["diagnostics"].as_bool().unwrap_or(true);
    let (msgs, reqs) = to_messages(&sc, diagnostics);
    let exp = model(&sc, &reqs);
    let frames = if case["mode"] == json!("process") {
        let bytes: Vec<u8> = msgs.iter().flat_map(frame).collect();
        procdrv::run_chunks(&[bytes], false, Duration::from_secs(20)).frames
    } else if let Some(s) = case.get("schedule").and_then(|v| v.as_array()) {
        let sch: Vec<usize> = s.iter().filter_map(|v| v.as_u64().map(|x| x as usize)).collect();
        let env = EnvConfig {
            chunks: if case.get("burst").map(|b| !b.is_null()).unwrap_or(false) { vec![msgs.iter().flat_map(frame).collect()] } else { msgs.iter().map(frame).collect() },
            feeder_task: false,
            clamp: case["clamp"].as_u64().map(|x| x as usize),
            stdout_cap: case["stdout_cap"].as_u64().map(|x| x as usize),
            delay_bounded: false,
        };
        match sched::replay(&env, &sch) {
            Ok(o) => o.frames,
            Err(e) => return vec![Failure { key: "ordering:abort".into(), case: case.clone(), detail: e }],
        }
    } else {
        run_inproc(&msgs.iter().flat_map(frame).collect::<Vec<u8>>()).frames
    };
    check_output(&frames, &exp, diagnostics)
        .err()
        .map(|(k, d)| vec![Failure { key: format!("ordering:{}", k), case: case.clone(), detail: d }])
        .unwrap_or_default()
}
