//! C05 — a syntax error stays contained in the declaration it occurs in.  E-INPUT, differential.
use crate::common::*;
use crate::gen::ast::*;
use crate::gen::families::*;
use crate::gen::layout::*;
use crate::gen::refsem::{self, Target};
use crate::gen::ast::{Tok, TokClass};
use crate::lsptext;
use crate::session::*;
use crate::soup::SIGMA_TOK;
use rayon::prelude::*;
use serde_json::{json, Value};
use spl_frontend::ast::{GlobalDeclaration, Program, Reference};
use spl_frontend::error::ErrorMessage;
use spl_frontend::table::{GlobalEntry, SymbolTable};
use spl_frontend::{lexer, parser, AnalyzedSource, ErrorContainer};
use std::sync::atomic::{AtomicU64, Ordering};
use std::sync::Arc;

fn decl_pool() -> Vec<RDecl> {
    let cond = |o: Op, v: u32| bin(o, evar("i"), eint(v));
    vec![
        RDecl::Type { name: "A".into(), ty: arr(2, tname("int")) },
        RDecl::Proc {
            name: "q".into(),
            params: vec![RParam { is_ref: false, name: "x".into(), ty: tname("int") }, RParam { is_ref: true, name: "z".into(), ty: tname("A") }],
            vars: vec![],
            body: vec![RStmt::Assign(idx(vname("z"), eint(0)), evar("x"))],
        },
        RDecl::Proc {
            name: "main".into(),
            params: vec![],
            vars: vec![RVarDecl { name: "i".into(), ty: tname("int") }, RVarDecl { name: "a".into(), ty: tname("A") }],
            body: vec![
                RStmt::Assign(vname("i"), eint(1)),
                RStmt::If(
                    cond(Op::Lst, 2),
                    Arc::new(RStmt::Call("q".into(), vec![bin(Op::Add, evar("i"), RExpr::Neg(Arc::new(eint(1)))), evar("a")])),
                    Some(Arc::new(RStmt::Block(vec![RStmt::While(cond(Op::Neq, 0), Arc::new(RStmt::Assign(vname("i"), RExpr::Paren(Arc::new(bin(Op::Sub, evar("i"), eint(1)))))))]))),
                ),
            ],
        },
        RDecl::Type { name: "B".into(), ty: arr(3, tname("A")) },
        RDecl::Proc { name: "r".into(), params: vec![], vars: vec![], body: vec![RStmt::Empty, RStmt::Call("printi".into(), vec![eint(1)])] },
        // a procedure without statements (recovery inside the variable-declaration part) ...
        RDecl::Proc { name: "e".into(), params: vec![], vars: vec![], body: vec![] },
        // ... and one with declarations only
        RDecl::Proc { name: "d".into(), params: vec![RParam { is_ref: true, name: "p".into(), ty: arr(2, tname("int")) }], vars: vec![RVarDecl { name: "v".into(), ty: tname("int") }], body: vec![] },
    ]
}

pub fn programs(tier: Tier) -> Vec<RProgram> {
    let pool = decl_pool();
    let mut out = vec![];
    // subsets of 2..=4 declarations in every order that type checks
    let n = pool.len();
    for mask in 1u32..(1 << n) {
        let k = mask.count_ones() as usize;
        if k < 2 || k > tier.pick(3, 4) {
            continue;
        }
        let sel: Vec<RDecl> = (0..n).filter(|i| mask >> i & 1 == 1).map(|i| pool[i].clone()).collect();
        for p in perms(&sel) {
            let prog = RProgram { decls: p };
            // valid apart from a possibly missing main: no error other than MainIsMissing
            let sem = refsem::analyze(&prog);
            if sem.errors.iter().all(|e| e.rule == refsem::Rule::MainIsMissing) {
                out.push(prog);
            }
        }
    }
    // one program with many declarations (beyond any small window): twenty type declarations
    // around the procedures of the pool
    {
        let mut decls: Vec<RDecl> = vec![pool[0].clone()];
        for k in 0..20 {
            decls.push(RDecl::Type { name: format!("T{}", k), ty: if k % 2 == 0 { arr(2, tname("int")) } else { tname("A") } });
            if k % 5 == 4 {
                decls.push(pool[[1usize, 2, 4, 6][k / 5]].clone());
            }
        }
        out.push(RProgram { decls });
    }
    out
}

fn perms<T: Clone>(v: &[T]) -> Vec<Vec<T>> {
    if v.len() <= 1 {
        return vec![v.to_vec()];
    }
    let mut out = vec![];
    for i in 0..v.len() {
        let mut rest = v.to_vec();
        let x = rest.remove(i);
        for mut p in perms(&rest) {
            p.insert(0, x.clone());
            out.push(p);
        }
    }
    out
}

#[derive(Clone, Debug)]
pub enum Damage {
    Delete(usize),
    Insert(usize, String),
    Replace(usize, String),
}

fn is_syntax(m: &ErrorMessage) -> bool {
    matches!(m, ErrorMessage::ParseErrorMessage(_) | ErrorMessage::LexErrorMessage(_))
}

fn entry_shifted(e: &GlobalEntry, delta: isize) -> GlobalEntry {
    let sh = |r: &std::ops::Range<usize>| ((r.start as isize + delta) as usize)..((r.end as isize + delta) as usize);
    match e {
        GlobalEntry::Type(t) => {
            let mut t = t.clone();
            t.range = sh(&t.range);
            GlobalEntry::Type(t)
        }
        GlobalEntry::Procedure(p) => {
            let mut p = p.clone();
            p.range = sh(&p.range);
            GlobalEntry::Procedure(p)
        }
    }
}

fn decl_name(d: &RDecl) -> &str {
    match d {
        RDecl::Type { name, .. } | RDecl::Proc { name, .. } => name,
    }
}

fn mentions(d: &RDecl, name: &str, pr: &Printed, di: usize) -> bool {
    let _ = d;
    let (a, b) = pr.decl_spans[di];
    pr.toks[a..b].iter().any(|t| t.text == name)
}

pub struct Base {
    pub prog: RProgram,
    pub pr: Printed,
    pub words: Vec<String>,
    pub text: String,
    pub spans: Vec<(usize, usize)>,
    pub tree: Program,
    pub analyzed: AnalyzedSource,
    pub sem: refsem::Sem,
}

fn join_words(words: &[String]) -> String {
    words.iter().map(|w| if w.ends_with('\n') { w.clone() } else { format!("{} ", w) }).collect::<String>()
}

/// `docs`: put a doc-comment line in front of every declaration (the comment is the first
/// token of the declaration it documents)
pub fn base(prog: &RProgram, docs: bool) -> Base {
    let mut pr = print_program(prog);
    let mut sem = refsem::analyze(prog);
    if docs {
        let n = pr.decl_spans.len();
        // one doc-comment line per declaration; in programs with many declarations the fourth
        // one gets forty (more lines than any small look-ahead window)
        let lines = |d: usize| if n > 6 && d == 3 { 40 } else { 1 };
        for d in (0..n).rev() {
            let (a, _) = pr.decl_spans[d];
            for k in (0..lines(d)).rev() {
                pr.toks.insert(a, Tok { text: format!("// doc{}.{}\n", d, k), class: TokClass::Symbol, decl: d, level: 0 });
            }
        }
        // comment tokens in front of declaration d (exclusive) and up to it (inclusive)
        let before = |d: usize| -> usize { (0..d).map(lines).sum() };
        for d in 0..n {
            let (a, b) = pr.decl_spans[d];
            pr.decl_spans[d] = (a + before(d), b + before(d) + lines(d));
        }
        let shift = |t: usize, toks_decl: usize| t + before(toks_decl) + lines(toks_decl);
        // token -> declaration index is known from the (already shifted) token list
        let decl_of_old: Vec<usize> = {
            let mut v = vec![];
            for t in pr.toks.iter() {
                if !t.text.starts_with("//") {
                    v.push(t.decl);
                }
            }
            v
        };
        for o in sem.occs.iter_mut() {
            let d = decl_of_old[o.tok];
            if let Target::Decl(t) = o.target {
                o.target = Target::Decl(shift(t, decl_of_old[t]));
            }
            o.tok = shift(o.tok, d);
        }
    }
    let words: Vec<String> = pr.toks.iter().map(|t| t.text.clone()).collect();
    let text = join_words(&words);
    let tree = parser::parse(&lexer::lex(&text));
    let analyzed = AnalyzedSource::new(text.clone());
    Base { prog: prog.clone(), sem, pr, words, text, spans: vec![], tree, analyzed }
}

/// Err(kind, detail)
pub fn eval(b: &Base, d: usize, dmg: &Damage, with_lsp: bool) -> Result<(), (String, String, String)> {
    eval_state(b, d, dmg, with_lsp, None)
}

fn damaged_words(b: &Base, dmg: &Damage) -> Vec<String> {
    let mut words = b.words.clone();
    match dmg {
        Damage::Delete(k) => {
            words.remove(*k);
        }
        Damage::Insert(k, w) => words.insert(*k, w.clone()),
        Damage::Replace(k, w) => words[*k] = w.clone(),
    }
    words
}

/// The damaged state is reached by editing: valid program -> (one change) first damage ->
/// (one change) the text that differs from the valid program by `second` alone. The analysis
/// is carried forward by `update`. None: the first update already panicked (reported by C01/C02).
pub fn state_after_edits(b: &Base, first: &Damage, second: &Damage) -> Result<AnalyzedSource, String> {
    let t0 = b.text.clone();
    let t1 = join_words(&damaged_words(b, first));
    let t2 = join_words(&damaged_words(b, second));
    guarded(move || {
        let e1 = crate::checks::c15::single_edit_bytes(&t0, &t1);
        let e2 = crate::checks::c15::single_edit_bytes(&t1, &t2);
        let s0 = AnalyzedSource::new(t0);
        let s1 = s0.update(vec![spl_frontend::TextChange { range: e1.0..e1.1, text: e1.2 }]);
        s1.update(vec![spl_frontend::TextChange { range: e2.0..e2.1, text: e2.2 }])
    })
}

/// `pre`: the analysis of the damaged text as reached by a history (default: fresh analysis)
pub fn eval_state(b: &Base, d: usize, dmg: &Damage, with_lsp: bool, pre: Option<AnalyzedSource>) -> Result<(), (String, String, String)> {
    let mut words = b.words.clone();
    let (tok_delta, at): (isize, usize) = match dmg {
        Damage::Delete(k) => {
            words.remove(*k);
            (-1, *k)
        }
        Damage::Insert(k, w) => {
            words.insert(*k, w.clone());
            (1, *k)
        }
        Damage::Replace(k, w) => {
            words[*k] = w.clone();
            (0, *k)
        }
    };
    // a comment token swallows the rest of its line: keep it on a line of its own
    let text = join_words(&words);
    let base_text = join_words(&b.words);
    let _ = at;
    let t2 = text.clone();
    let res = guarded(move || match pre {
        Some(an) => {
            let errs = an.errors();
            (an.ast.clone(), an, errs)
        }
        None => {
            let toks = lexer::lex(&t2);
            let tree = parser::parse(&toks);
            let an = AnalyzedSource::new(t2.clone());
            let errs = an.errors();
            (tree, an, errs)
        }
    });
    let (tree, an, errs) = match res {
        Ok(x) => x,
        Err(p) => return Err(("panic".into(), p, text)),
    };
    let n = b.prog.decls.len();
    let before = &b.tree.global_declarations;
    let after = &tree.global_declarations;
    let pick = |i: usize, v: &'_ [Reference<GlobalDeclaration>]| -> Option<Reference<GlobalDeclaration>> {
        if i < d {
            v.get(i).cloned()
        } else {
            // count from the back
            let from_back = n - 1 - i;
            v.len().checked_sub(1 + from_back).and_then(|j| v.get(j).cloned())
        }
    };
    let damaged_name = decl_name(&b.prog.decls[d]).to_string();
    for i in 0..n {
        if i == d {
            continue;
        }
        let what = match &b.prog.decls[i] {
            RDecl::Type { .. } => "type",
            RDecl::Proc { .. } => "proc",
        };
        let rel = if i < d { "before" } else { "after" };
        let want = pick(i, before).unwrap();
        let got = pick(i, after);
        let ok = match &got {
            Some(g) => g.reference == want.reference && (g.offset as isize == want.offset as isize + if i > d { tok_delta } else { 0 }),
            None => false,
        };
        if !ok {
            return Err((
                format!("subtree-of-{}-declaration-{}-the-damage", what, rel),
                format!("declaration #{} ({}): after the damage {:?}", i, decl_name(&b.prog.decls[i]), got.map(|g| format!("offset {} {:?}", g.offset, g.reference))),
                text,
            ));
        }
        // symbol table entry
        let name = decl_name(&b.prog.decls[i]);
        // a damage that puts this declaration's own name into the damaged declaration may
        // legitimately take over the table entry (redeclaration: the first one wins)
        let introduced = match dmg {
            Damage::Insert(_, w) | Damage::Replace(_, w) => w.as_str() == name,
            Damage::Delete(_) => false,
        };
        if introduced {
            continue;
        }
        let e0 = b.analyzed.table.lookup(name);
        let e1 = an.table.lookup(name);
        let delta = if i > d { tok_delta } else { 0 };
        let entry_ok = match (e0, e1) {
            (Some(e0), Some(e1)) => {
                if !mentions(&b.prog.decls[i], &damaged_name, &b.pr, i) {
                    entry_shifted(e0, delta) == *e1
                } else {
                    // types may legitimately depend on the damaged declaration
                    match (entry_shifted(e0, delta), e1) {
                        (GlobalEntry::Type(a), GlobalEntry::Type(b)) => a.name == b.name && a.range == b.range && a.doc == b.doc,
                        (GlobalEntry::Procedure(a), GlobalEntry::Procedure(b)) => {
                            a.name == b.name
                                && a.range == b.range
                                && a.doc == b.doc
                                && a.local_table.entries.keys().collect::<std::collections::BTreeSet<_>>() == b.local_table.entries.keys().collect::<std::collections::BTreeSet<_>>()
                        }
                        _ => false,
                    }
                }
            }
            _ => false,
        };
        if !entry_ok {
            return Err((format!("table-entry-of-{}-declaration-{}-the-damage", what, rel), format!("entry of {}: before {:?}\nafter {:?}", name, e0, e1), text));
        }
    }
    // syntax diagnostics stay inside the damaged declaration
    // byte span of the damaged declaration in the damaged text: from the end of the previous
    // declaration's last token to the first token of the next declaration
    let byte_of_word = |ws: &[String], k: usize| -> usize { ws[..k].iter().map(|w| if w.ends_with('\n') { w.len() } else { w.len() + 1 }).sum() };
    let (da, db) = b.pr.decl_spans[d];
    let lo = byte_of_word(&words, da);
    let hi_tok = (db as isize + tok_delta) as usize;
    let hi = if d + 1 < n { byte_of_word(&words, hi_tok) } else { text.len() };
    for e in &errs {
        if is_syntax(&e.1) && !(e.0.start >= lo.saturating_sub(1) && e.0.end <= hi) {
            return Err((
                "syntax-diagnostic-outside-the-damaged-declaration".into(),
                format!("{:?} outside bytes {}..{}", e, lo, hi),
                text,
            ));
        }
    }
    // navigation inside undamaged declarations
    if with_lsp {
        let mut s = Session::new(false);
        s.open(URI, &text);
        let mut reqs = vec![];
        let new_index = |tok: usize| -> usize { if tok >= db { (tok as isize + tok_delta) as usize } else { tok } };
        for o in &b.sem.occs {
            if o.decl == d {
                continue;
            }
            // a name introduced by the damage may legitimately rebind (redeclaration)
            let introduced = match dmg {
                Damage::Insert(_, w) | Damage::Replace(_, w) => *w == o.name,
                Damage::Delete(_) => false,
            };
            // ... and so may everything inside a declaration whose name was introduced
            let scope_taken_over = match dmg {
                Damage::Insert(_, w) | Damage::Replace(_, w) => w.as_str() == decl_name(&b.prog.decls[o.decl]),
                Damage::Delete(_) => false,
            };
            if introduced || scope_taken_over {
                continue;
            }
            if let Target::Decl(t) = o.target {
                if b.pr.toks[t].decl == d {
                    continue;
                }
                let pos = byte_of_word(&words, new_index(o.tok));
                let tpos = byte_of_word(&words, new_index(t));
                let (l, c) = lsptext::position(&text, pos);
                let id = s.pos_request("textDocument/declaration", URI, l, c);
                let (l1, c1) = lsptext::position(&text, tpos);
                let (l2, c2) = lsptext::position(&text, tpos + b.words[t].len());
                reqs.push((id, o.tok, json!({"uri": URI, "range": {"start": {"line": l1, "character": c1}, "end": {"line": l2, "character": c2}}})));
            }
        }
        let out = s.run();
        if let Some(e) = out.error.clone().or(out.frame_error.clone()) {
            return Err(("navigation-error".into(), e, text));
        }
        let resp = out.responses();
        for (id, tok, want) in reqs {
            let got = resp.get(&id).and_then(|r| r.get("result").cloned()).unwrap_or(Value::Null);
            if got != want {
                return Err((
                    "goto-declaration-inside-undamaged-declaration".into(),
                    format!("identifier #{} {:?}: got {}, expected {}", tok, b.words[tok], got, want),
                    text,
                ));
            }
        }
    }
    let _ = base_text;
    Ok(())
}

// exact known-finding membership for the edit histories (side-car of input hashes, written
// only by `splmc baseline C05`, never by a check run)
pub fn sidecar_path() -> std::path::PathBuf {
    verif_dir().join("known_findings").join("C05.hashes")
}
pub fn load_sidecar() -> std::collections::HashSet<u64> {
    let mut s = std::collections::HashSet::new();
    if let Ok(b) = std::fs::read(sidecar_path()) {
        for c in b.chunks_exact(8) {
            s.insert(u64::from_le_bytes(c.try_into().unwrap()));
        }
    }
    s
}
fn history_id(t0: &str, t1: &str, t2: &str) -> u64 {
    let mut h: u64 = 0xcbf29ce484222325;
    for part in [t0, t1, t2] {
        for x in part.as_bytes().iter().chain([0xffu8].iter()) {
            h ^= *x as u64;
            h = h.wrapping_mul(0x100000001b3);
        }
    }
    h
}

fn tok_kind(w: &str) -> String {
    if w.chars().all(|c| c.is_ascii_alphabetic()) && crate::reflex::KEYWORDS.contains(&w) {
        w.to_string()
    } else if w.chars().next().map(|c| c.is_ascii_alphabetic()).unwrap_or(false) {
        "id".into()
    } else if w.chars().next().map(|c| c.is_ascii_digit() || c == '\'').unwrap_or(false) {
        "lit".into()
    } else if w.starts_with("//") {
        "comment".into()
    } else {
        w.to_string()
    }
}

pub fn run(tier: Tier) -> Report {
    sweep(tier).0
}

/// Development-time only (`splmc baseline C05`): writes the side-car of currently failing
/// edit histories (both tiers).
pub fn write_baseline() {
    let mut ids: Vec<u64> = vec![];
    for t in [Tier::Quick, Tier::Thorough] {
        ids.extend(sweep(t).1);
    }
    ids.sort();
    ids.dedup();
    let mut b = Vec::with_capacity(ids.len() * 8);
    for i in &ids {
        b.extend_from_slice(&i.to_le_bytes());
    }
    std::fs::create_dir_all(sidecar_path().parent().unwrap()).unwrap();
    std::fs::write(sidecar_path(), b).unwrap();
    println!("baseline: {} failing histories written to {}", ids.len(), sidecar_path().display());
}

pub fn sweep(tier: Tier) -> (Report, Vec<u64>) {
    let mut rep = Report::new("C05", tier);
    let known = load_sidecar();
    let progs = programs(tier);
    let evals = AtomicU64::new(0);
    // no declaration keywords (excluded by the property) and no comment line (a comment in
    // front of the next declaration legitimately becomes its doc comment; comment placements
    // are C04's family)
    let alphabet: Vec<&str> = SIGMA_TOK.iter().cloned().filter(|t| *t != "proc" && *t != "type" && !t.starts_with("//")).collect();
    let fails: Vec<Failure> = progs
        .par_iter()
        .enumerate()
        .flat_map_iter(|(pi, p)| {
            let mut out: Vec<Failure> = vec![];
            let mut seen = std::collections::HashSet::new();
            for docs in [false, true] {
            let b = base(p, docs);
            for d in 0..p.decls.len() {
                let (a, e) = b.pr.decl_spans[d];
                for k in a..e {
                    let w = &b.words[k];
                    if w == "proc" || w == "type" || w.starts_with("//") {
                        // the declaration keyword itself is never damaged; insertion in front of
                        // it would belong to the previous declaration
                        continue;
                    }
                    let mut dmgs = vec![Damage::Delete(k)];
                    for t in &alphabet {
                        dmgs.push(Damage::Insert(k, t.to_string()));
                        dmgs.push(Damage::Replace(k, t.to_string()));
                    }
                    for (di, dmg) in dmgs.iter().enumerate() {
                        evals.fetch_add(1, Ordering::Relaxed);
                        let with_lsp = (pi + k + di) % tier.pick(7, 2) == 0;
                        if let Err((kind, detail, text)) = eval(&b, d, dmg, with_lsp) {
                            let (op, tok) = match dmg {
                                Damage::Delete(k) => ("delete", tok_kind(&b.words[*k])),
                                Damage::Insert(_, w) => ("insert", tok_kind(w)),
                                Damage::Replace(_, w) => ("replace-by", tok_kind(w)),
                            };
                            let key = format!("containment:{}:{}-{}", kind, op, tok);
                            if seen.insert(key.clone()) || out.len() < 6 {
                                out.push(Failure { key, case: json!({"text": text, "base": b.text, "damaged_declaration": d, "damage": format!("{:?}", dmg)}), detail });
                            }
                        }
                    }
                }
            }
            }
            out
        })
        .collect();
    // the same oracle on states that are reached by editing: valid -> first damage -> second
    // damage (both single-token damages of the same declaration, each step one change event),
    // the analysis carried forward by update()
    let hist_alphabet: Vec<&str> = [">", "x", "{", ";", ")", "1", "if", ":="].to_vec();
    let hist_evals = AtomicU64::new(0);
    let hist_results: Vec<(u64, bool, Option<Failure>)> = progs
        .par_iter()
        .enumerate()
        .filter(|(pi, p)| pi % tier.pick(9, 2) == 0 || p.decls.len() > 6)
        .flat_map_iter(|(pi, p)| {
            let big = p.decls.len() > 6;
            let mut out: Vec<(u64, bool, Option<Failure>)> = vec![];
            let mut seen = std::collections::HashSet::new();
            let mut kept_known = 0usize;
            let b = base(p, pi % 2 == 1);
            for d in 0..p.decls.len() {
                let (a, e) = b.pr.decl_spans[d];
                let mut dmgs: Vec<Damage> = vec![];
                for k in a..e {
                    let w = &b.words[k];
                    if w == "proc" || w == "type" || w.starts_with("//") {
                        continue;
                    }
                    dmgs.push(Damage::Delete(k));
                    for t in hist_alphabet.iter().skip(k % 2).step_by(2) {
                        dmgs.push(Damage::Insert(k, t.to_string()));
                        dmgs.push(Damage::Replace(k, t.to_string()));
                    }
                }
                for (i1, first) in dmgs.iter().enumerate().step_by(if big { 7 } else { tier.pick(3, 1) }) {
                    for (i2, second) in dmgs.iter().enumerate().skip(i1 % 2).step_by(if big { 5 } else { tier.pick(2, 1) }) {
                        if i1 == i2 {
                            continue;
                        }
                        hist_evals.fetch_add(1, Ordering::Relaxed);
                        let r = match state_after_edits(&b, first, second) {
                            Ok(st) => {
                                // where the fresh analysis of the same text violates the oracle too,
                                // the single-step sweep above has reported it already
                                match eval_state(&b, d, second, false, Some(st)) {
                                    Err(e) if eval(&b, d, second, false).is_ok() => Err(e),
                                    _ => Ok(()),
                                }
                            }
                            Err(p) => Err(("panic-in-update".to_string(), p, join_words(&damaged_words(&b, second)))),
                        };
                        if let Err((kind, detail, text)) = r {
                            let t1 = join_words(&damaged_words(&b, first));
                            let id = history_id(&b.text, &t1, &text);
                            let is_known = known.contains(&id);
                            let dk = |dmg: &Damage| match dmg {
                                Damage::Delete(k) => format!("delete-{}", tok_kind(&b.words[*k])),
                                Damage::Insert(k, w) => format!("insert-{}-before-{}", tok_kind(w), tok_kind(&b.words[*k])),
                                Damage::Replace(k, w) => format!("replace-{}-by-{}", tok_kind(&b.words[*k]), tok_kind(w)),
                            };
                            let key = if is_known { "known-containment-after-edits".to_string() } else { format!("containment-after-edits:{}:{}:then:{}", kind, dk(first), dk(second)) };
                            let keep = if is_known {
                                kept_known += 1;
                                kept_known <= 2
                            } else {
                                seen.insert(key.clone()) || seen.len() < 50
                            };
                            let f = if keep {
                                Some(Failure {
                                    key,
                                    case: json!({"text": text, "base": b.text, "first_damage_text": t1, "damaged_declaration": d, "damage": format!("{:?} then {:?}", first, second)}),
                                    detail: truncate(&detail, 1200),
                                })
                            } else {
                                None
                            };
                            out.push((id, is_known, f));
                        }
                    }
                }
            }
            out
        })
        .collect();
    let failing_ids: Vec<u64> = hist_results.iter().map(|r| r.0).collect();
    let hist_known = hist_results.iter().filter(|r| r.1).count();
    let hist_failing = hist_results.len();
    // every unlisted failure counts; of the listed ones a few are kept as samples
    let mut hist_fails: Vec<Failure> = vec![];
    let mut known_kept = 0;
    for (_, k, f) in hist_results {
        if let Some(f) = f {
            if !k {
                hist_fails.push(f);
            } else if known_kept < MAX_KEPT_FAILURES {
                known_kept += 1;
                hist_fails.push(f);
            }
        }
    }
    // the known ones that were not kept still count as failing cases of the finding
    rep.extra.insert("two_step_edit_histories_failing".into(), json!(hist_failing));
    rep.extra.insert("two_step_edit_histories_failing_known".into(), json!(hist_known));
    let mut fails = fails;
    fails.extend(hist_fails);
    rep.extra.insert("two_step_edit_histories".into(), json!(hist_evals.load(Ordering::Relaxed)));
    rep.states = progs.len() as u64 * 2;
    rep.transitions = evals.load(Ordering::Relaxed) + hist_evals.load(Ordering::Relaxed);
    rep.evaluations = rep.transitions;
    rep.traces_validated = rep.transitions;
    rep.distinct_nontrivial = rep.transitions;
    rep.rule = "valid programs (without and with a doc-comment line in front of every declaration): every subset of 2..3/4 declarations of a 7-declaration pool in every order that type checks x every declaration as the damaged one x every token of it except the declaration keyword x {delete, insert each token of the alphabet in front of it, replace it by each} (alphabet without proc/type); oracle (differential with the undamaged parse): sub-trees of all other declarations equal (Reference offset shifted by the token delta), symbol-table entries equal up to the shift, syntax diagnostics inside the damaged declaration's byte span, goto declaration inside undamaged declarations answers as before".into();
    rep.bounds = json!({"programs": progs.len(), "alphabet": alphabet});
    rep.sample(json!({"base": "type A = array [ 2 ] of int ; proc q ( x : int , ref z : A ) { z [ 0 ] := x ; }", "damage": "Delete(`)` of q)"}));
    rep.assumptions = vec!["the undamaged parse of the same implementation is the reference (differential)".into()];
    rep.failures = fails;
    (rep, failing_ids)
}

pub fn replay(case: &Value) -> Vec<Failure> {
    let text = case["text"].as_str().unwrap_or("").to_string();
    if let (Some(t0), Some(t1)) = (case["base"].as_str(), case["first_damage_text"].as_str()) {
        // history case: base -> first damage -> text by two updates; the declarations and the
        // table of the state reached must be those of a fresh analysis of `text`
        let (t0, t1, t2) = (t0.to_string(), t1.to_string(), text.clone());
        let r = guarded(move || {
            let e1 = crate::checks::c15::single_edit_bytes(&t0, &t1);
            let e2 = crate::checks::c15::single_edit_bytes(&t1, &t2);
            let s = AnalyzedSource::new(t0).update(vec![spl_frontend::TextChange { range: e1.0..e1.1, text: e1.2 }]).update(vec![spl_frontend::TextChange { range: e2.0..e2.1, text: e2.2 }]);
            let f = AnalyzedSource::new(t2);
            (s.ast == f.ast, s.table == f.table)
        });
        return match r {
            Err(p) => vec![Failure { key: "containment-after-edits:panic-in-update".into(), case: case.clone(), detail: p }],
            Ok((true, true)) => vec![],
            Ok((a, t)) => vec![Failure { key: "containment-after-edits:state-differs-from-fresh-analysis".into(), case: case.clone(), detail: format!("tree equal: {}, table equal: {}", a, t) }],
        };
    }
    match guarded(move || AnalyzedSource::new(text).errors()) {
        Err(p) => vec![Failure { key: "containment:panic".into(), case: case.clone(), detail: p }],
        Ok(e) => {
            println!("diagnostics of the damaged text: {:?}", e);
            vec![]
        }
    }
}
