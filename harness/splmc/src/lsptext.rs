//! `lsptext` — the LSP 3.17 text/position model (independent of lsp4spl::document).
//! Lines end at `\n`, `\r\n` or `\r`; columns count UTF-16 code units; a column past the end
//! of a line means the end of that line (before its line terminator); a line past the last
//! line means the end of the text; change events are applied in order, each against the result
//! of its predecessor; an event without range replaces the whole text.

/// (start of line, end of line content = before the terminator) for every line
pub fn lines(text: &str) -> Vec<(usize, usize)> {
    let b = text.as_bytes();
    let mut out = vec![];
    let mut start = 0;
    let mut i = 0;
    while i < b.len() {
        if b[i] == b'\n' {
            out.push((start, i));
            i += 1;
            start = i;
        } else if b[i] == b'\r' {
            out.push((start, i));
            i += if i + 1 < b.len() && b[i + 1] == b'\n' { 2 } else { 1 };
            start = i;
        } else {
            i += 1;
        }
    }
    out.push((start, b.len()));
    out
}

/// Line table of one text for many position queries (same model as `position`)
pub struct LineIndex<'a> {
    text: &'a str,
    lines: Vec<(usize, usize)>,
}

impl<'a> LineIndex<'a> {
    pub fn new(text: &'a str) -> Self {
        LineIndex { text, lines: lines(text) }
    }
    pub fn line_count(&self) -> usize {
        self.lines.len()
    }
    /// Position -> byte offset (same model as `offset`)
    pub fn offset(&self, line: u32, character: u32) -> Option<usize> {
        let Some(&(s, e)) = self.lines.get(line as usize) else {
            return Some(self.text.len());
        };
        let mut col = 0u32;
        for (i, c) in self.text[s..e].char_indices() {
            if col == character {
                return Some(s + i);
            }
            let w = c.len_utf16() as u32;
            if col < character && character < col + w {
                return None;
            }
            col += w;
        }
        Some(e)
    }
    /// byte offset (on a char boundary) -> Position
    pub fn position(&self, off: usize) -> (u32, u32) {
        // last line whose start <= off
        let li = match self.lines.binary_search_by(|(s, _)| s.cmp(&off)) {
            Ok(i) => i,
            Err(i) => i.saturating_sub(1),
        };
        let (s, e) = self.lines[li];
        let upto = off.min(e);
        let col: usize = self.text[s..upto].chars().map(|c| c.len_utf16()).sum();
        (li as u32, col as u32)
    }
}

/// Position -> byte offset. None when the column falls between the two code units of a
/// surrogate pair (LSP leaves that undefined).
pub fn offset(text: &str, line: u32, character: u32) -> Option<usize> {
    let ls = lines(text);
    let Some(&(s, e)) = ls.get(line as usize) else {
        return Some(text.len());
    };
    let mut col = 0u32;
    for (i, c) in text[s..e].char_indices() {
        if col == character {
            return Some(s + i);
        }
        let w = c.len_utf16() as u32;
        if col < character && character < col + w {
            return None;
        }
        col += w;
    }
    Some(e)
}

/// byte offset (on a char boundary) -> Position
pub fn position(text: &str, off: usize) -> (u32, u32) {
    let ls = lines(text);
    // the line that contains `off`: last line whose start <= off
    let mut li = 0;
    for (k, (s, _)) in ls.iter().enumerate() {
        if *s <= off {
            li = k;
        }
    }
    let (s, e) = ls[li];
    let upto = off.min(e);
    let col: usize = text[s..upto].chars().map(|c| c.len_utf16()).sum();
    (li as u32, col as u32)
}

#[derive(Clone, Debug, PartialEq, Eq)]
pub struct Change {
    /// (start line, start char, end line, end char); None = full replacement
    pub range: Option<(u32, u32, u32, u32)>,
    pub text: String,
}

/// None when a position of the change is undefined (inside a surrogate pair).
pub fn apply(text: &str, ch: &Change) -> Option<String> {
    match ch.range {
        None => Some(ch.text.clone()),
        Some((l1, c1, l2, c2)) => {
            let a = offset(text, l1, c1)?;
            let b = offset(text, l2, c2)?;
            let (a, b) = if a <= b { (a, b) } else { (a, a) };
            let mut t = text.to_string();
            t.replace_range(a..b, &ch.text);
            Some(t)
        }
    }
}

pub fn utf16_len(s: &str) -> u32 {
    s.chars().map(|c| c.len_utf16() as u32).sum()
}

#[cfg(test)]
mod tests {
    use super::*;
    #[test]
    fn model() {
        let t = "a\u{1f600}b\ncd\r\nef\rg";
        let ix = LineIndex::new(t);
        for off in (0..=t.len()).filter(|o| t.is_char_boundary(*o)) {
            assert_eq!(ix.position(off), position(t, off), "offset {}", off);
        }
        assert_eq!(lines(t).len(), 4);
        assert_eq!(offset(t, 0, 3), Some(5)); // `b` after a 2-unit astral char
        assert_eq!(offset(t, 0, 2), None);
        assert_eq!(offset(t, 0, 9), Some(6)); // clamps to end of line 0
        assert_eq!(offset(t, 1, 2), Some(9));
        assert_eq!(offset(t, 3, 0), Some(14));
        assert_eq!(offset(t, 9, 0), Some(t.len()));
        assert_eq!(position(t, 5), (0, 3));
        assert_eq!(position(t, 14), (3, 0));
    }
}
