//! Structural projection of the real `spl_frontend::ast::Program` into the reference AST,
//! together with every node's range resolved to absolute token indexes (sum of the
//! `Reference` offsets on the path + the node's relative range), in pre-order.
use crate::gen::ast::*;
use spl_frontend::ast as A;
use spl_frontend::ToRange;
use std::sync::Arc;

pub struct Projected {
    pub program: RProgram,
    pub spans: Vec<Span>,
    /// number of diagnostics found anywhere in the tree (AstInfo.errors), with their messages
    pub tree_errors: Vec<String>,
}

struct Pj {
    spans: Vec<Span>,
    errs: Vec<String>,
}

type R<T> = Result<T, String>;

impl Pj {
    fn span(&mut self, kind: NodeKind, base: usize, info: &A::AstInfo) {
        for e in &info.errors {
            self.errs.push(format!("{:?}", e));
        }
        self.spans.push(Span { kind, first: base + info.range.start, end: base + info.range.end });
    }

    fn ident(&mut self, base: usize, id: &A::Identifier) -> String {
        self.span(NodeKind::Ident, base, &id.info);
        id.value.clone()
    }

    fn lit(&mut self, base: usize, l: &A::IntLiteral) -> R<Lit> {
        self.span(NodeKind::ExprInt, base, &l.info);
        l.value.map(Lit::Dec).ok_or_else(|| "literal without value".to_string())
    }

    fn ty(&mut self, base: usize, t: &A::Reference<A::TypeExpression>) -> R<RType> {
        let base = base + t.offset;
        match &t.reference {
            A::TypeExpression::NamedType(id) => {
                self.span(NodeKind::TypeName, base, &id.info);
                Ok(RType::Name(id.value.clone()))
            }
            A::TypeExpression::ArrayType { size, base_type, info } => {
                self.span(NodeKind::TypeArray, base, info);
                let size = self.lit(base, size.as_ref().ok_or("array type without size")?)?;
                let bt = base_type.as_ref().ok_or("array type without base type")?;
                let b = self.ty(base, bt)?;
                Ok(RType::Array(size, Arc::new(b)))
            }
        }
    }

    fn var(&mut self, base: usize, v: &A::Variable) -> R<RVar> {
        match v {
            A::Variable::NamedVariable(id) => {
                self.span(NodeKind::ExprVarName, base, &id.info);
                Ok(RVar::Name(id.value.clone()))
            }
            A::Variable::ArrayAccess(a) => {
                self.span(NodeKind::ExprIndex, base, &a.info);
                let b = self.var(base, &a.array)?;
                let idx = a.index.as_ref().ok_or("array access without index")?;
                let i = self.expr(base + idx.offset, &idx.reference)?;
                Ok(RVar::Index(Arc::new(b), Arc::new(i)))
            }
        }
    }

    fn expr(&mut self, base: usize, e: &A::Expression) -> R<RExpr> {
        match e {
            A::Expression::IntLiteral(l) => Ok(RExpr::Int(self.lit(base, l)?)),
            A::Expression::Variable(v) => Ok(RExpr::Var(self.var(base, v)?)),
            A::Expression::Bracketed(b) => {
                self.span(NodeKind::ExprParen, base, &b.info);
                Ok(RExpr::Paren(Arc::new(self.expr(base, &b.expr)?)))
            }
            A::Expression::Unary(u) => {
                self.span(NodeKind::ExprNeg, base, &u.info);
                if u.operator != A::Operator::Sub {
                    return Err(format!("unary operator {:?}", u.operator));
                }
                Ok(RExpr::Neg(Arc::new(self.expr(base, &u.expr)?)))
            }
            A::Expression::Binary(b) => {
                self.span(NodeKind::ExprBin, base, &b.info);
                let l = self.expr(base, &b.lhs)?;
                let r = self.expr(base, &b.rhs)?;
                Ok(RExpr::Bin(op(&b.operator), Arc::new(l), Arc::new(r)))
            }
            A::Expression::Error(info) => {
                self.span(NodeKind::ExprInt, base, info);
                Err("error expression".into())
            }
        }
    }

    fn rexpr(&mut self, base: usize, e: &A::Reference<A::Expression>) -> R<RExpr> {
        self.expr(base + e.offset, &e.reference)
    }

    fn stmt(&mut self, base: usize, s: &A::Reference<A::Statement>) -> R<RStmt> {
        let base = base + s.offset;
        match &s.reference {
            A::Statement::Empty(info) => {
                self.span(NodeKind::StmtEmpty, base, info);
                Ok(RStmt::Empty)
            }
            A::Statement::Assignment(a) => {
                self.span(NodeKind::StmtAssign, base, &a.info);
                let v = self.var(base, &a.variable)?;
                let e = self.rexpr(base, a.expr.as_ref().ok_or("assignment without expression")?)?;
                Ok(RStmt::Assign(v, e))
            }
            A::Statement::Call(c) => {
                self.span(NodeKind::StmtCall, base, &c.info);
                let n = self.ident(base, &c.name);
                let mut args = vec![];
                for a in &c.arguments {
                    args.push(self.rexpr(base, a)?);
                }
                Ok(RStmt::Call(n, args))
            }
            A::Statement::Block(b) => {
                self.span(NodeKind::StmtBlock, base, &b.info);
                let mut ss = vec![];
                for x in &b.statements {
                    ss.push(self.stmt(base, x)?);
                }
                Ok(RStmt::Block(ss))
            }
            A::Statement::If(i) => {
                self.span(NodeKind::StmtIf, base, &i.info);
                let c = self.rexpr(base, i.condition.as_ref().ok_or("if without condition")?)?;
                let t = self.stmt(base, i.if_branch.as_ref().ok_or("if without branch")?)?;
                let e = match &i.else_branch {
                    Some(e) => Some(Arc::new(self.stmt(base, e)?)),
                    None => None,
                };
                Ok(RStmt::If(c, Arc::new(t), e))
            }
            A::Statement::While(w) => {
                self.span(NodeKind::StmtWhile, base, &w.info);
                let c = self.rexpr(base, w.condition.as_ref().ok_or("while without condition")?)?;
                let b = self.stmt(base, w.statement.as_ref().ok_or("while without body")?)?;
                Ok(RStmt::While(c, Arc::new(b)))
            }
            A::Statement::Error(info) => {
                self.span(NodeKind::StmtEmpty, base, info);
                Err("error statement".into())
            }
        }
    }

    fn decl(&mut self, d: &A::Reference<A::GlobalDeclaration>) -> R<RDecl> {
        let base = d.offset;
        match &d.reference {
            A::GlobalDeclaration::Type(t) => {
                self.span(NodeKind::TypeDecl, base, &t.info);
                let name = self.ident(base, t.name.as_ref().ok_or("type declaration without name")?);
                let ty = self.ty(base, t.type_expr.as_ref().ok_or("type declaration without type")?)?;
                Ok(RDecl::Type { name, ty })
            }
            A::GlobalDeclaration::Procedure(p) => {
                self.span(NodeKind::ProcDecl, base, &p.info);
                let name = self.ident(base, p.name.as_ref().ok_or("procedure without name")?);
                let mut params = vec![];
                for pa in &p.parameters {
                    let pb = base + pa.offset;
                    match &pa.reference {
                        A::ParameterDeclaration::Valid { is_ref, name, type_expr, info, .. } => {
                            self.span(NodeKind::Param, pb, info);
                            let n = self.ident(pb, name.as_ref().ok_or("parameter without name")?);
                            let ty = self.ty(pb, type_expr.as_ref().ok_or("parameter without type")?)?;
                            params.push(RParam { is_ref: *is_ref, name: n, ty });
                        }
                        A::ParameterDeclaration::Error(info) => {
                            self.span(NodeKind::Param, pb, info);
                            return Err("error parameter".into());
                        }
                    }
                }
                let mut vars = vec![];
                for v in &p.variable_declarations {
                    let vb = base + v.offset;
                    match &v.reference {
                        A::VariableDeclaration::Valid { name, type_expr, info, .. } => {
                            self.span(NodeKind::VarDecl, vb, info);
                            let n = self.ident(vb, name.as_ref().ok_or("variable without name")?);
                            let ty = self.ty(vb, type_expr.as_ref().ok_or("variable without type")?)?;
                            vars.push(RVarDecl { name: n, ty });
                        }
                        A::VariableDeclaration::Error(info) => {
                            self.span(NodeKind::VarDecl, vb, info);
                            return Err("error variable declaration".into());
                        }
                    }
                }
                let mut body = vec![];
                for s in &p.statements {
                    body.push(self.stmt(base, s)?);
                }
                Ok(RDecl::Proc { name, params, vars, body })
            }
            A::GlobalDeclaration::Error(info) => {
                self.span(NodeKind::TypeDecl, base, info);
                Err("error global declaration".into())
            }
        }
    }
}

fn op(o: &A::Operator) -> Op {
    match o {
        A::Operator::Add => Op::Add,
        A::Operator::Sub => Op::Sub,
        A::Operator::Mul => Op::Mul,
        A::Operator::Div => Op::Div,
        A::Operator::Equ => Op::Equ,
        A::Operator::Neq => Op::Neq,
        A::Operator::Lst => Op::Lst,
        A::Operator::Lse => Op::Lse,
        A::Operator::Grt => Op::Grt,
        A::Operator::Gre => Op::Gre,
    }
}

pub fn project(p: &A::Program) -> Result<Projected, String> {
    let mut pj = Pj { spans: vec![], errs: vec![] };
    pj.span(NodeKind::Program, 0, &p.info);
    let mut decls = vec![];
    for d in &p.global_declarations {
        decls.push(pj.decl(d)?);
    }
    let _ = p.to_range();
    Ok(Projected { program: RProgram { decls }, spans: pj.spans, tree_errors: pj.errs })
}

/// The generator's tree with literal spellings replaced by their values (the real tree keeps
/// values only).
pub fn normalize(p: &RProgram) -> RProgram {
    fn l(x: &Lit) -> Lit {
        Lit::Dec(x.value())
    }
    fn t(x: &RType) -> RType {
        match x {
            RType::Name(n) => RType::Name(n.clone()),
            RType::Array(s, b) => RType::Array(l(s), Arc::new(t(b))),
        }
    }
    fn v(x: &RVar) -> RVar {
        match x {
            RVar::Name(n) => RVar::Name(n.clone()),
            RVar::Index(b, i) => RVar::Index(Arc::new(v(b)), Arc::new(e(i))),
        }
    }
    fn e(x: &RExpr) -> RExpr {
        match x {
            RExpr::Int(x) => RExpr::Int(l(x)),
            RExpr::Var(x) => RExpr::Var(v(x)),
            RExpr::Paren(i) => RExpr::Paren(Arc::new(e(i))),
            RExpr::Neg(i) => RExpr::Neg(Arc::new(e(i))),
            RExpr::Bin(o, a, b) => RExpr::Bin(*o, Arc::new(e(a)), Arc::new(e(b))),
        }
    }
    fn s(x: &RStmt) -> RStmt {
        match x {
            RStmt::Empty => RStmt::Empty,
            RStmt::Assign(a, b) => RStmt::Assign(v(a), e(b)),
            RStmt::Call(n, a) => RStmt::Call(n.clone(), a.iter().map(e).collect()),
            RStmt::Block(b) => RStmt::Block(b.iter().map(s).collect()),
            RStmt::If(c, a, b) => RStmt::If(e(c), Arc::new(s(a)), b.as_ref().map(|b| Arc::new(s(b)))),
            RStmt::While(c, b) => RStmt::While(e(c), Arc::new(s(b))),
        }
    }
    RProgram {
        decls: p
            .decls
            .iter()
            .map(|d| match d {
                RDecl::Type { name, ty } => RDecl::Type { name: name.clone(), ty: t(ty) },
                RDecl::Proc { name, params, vars, body } => RDecl::Proc {
                    name: name.clone(),
                    params: params
                        .iter()
                        .map(|p| RParam { is_ref: p.is_ref, name: p.name.clone(), ty: t(&p.ty) })
                        .collect(),
                    vars: vars.iter().map(|x| RVarDecl { name: x.name.clone(), ty: t(&x.ty) }).collect(),
                    body: body.iter().map(s).collect(),
                },
            })
            .collect(),
    }
}
