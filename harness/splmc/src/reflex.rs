//! `reflex` — an independent reference lexer for SPL (hand-written longest-match scanner,
//! no nom, shares no code with spl_frontend).  Lexical grammar of the SPL language
//! description: white space = blank, tab, CR, LF; comments `//` to the end of the line or
//! of the text; identifiers `[A-Za-z_][A-Za-z0-9_]*` (keywords are whole words);
//! decimal literals `[0-9]+`; hexadecimal literals `0x[0-9a-fA-F]+`; character literals
//! `'c'` and `'\n'`; operators with longest match (`<=`, `>=`, `:=`).

#[derive(Clone, Debug, PartialEq, Eq)]
pub enum RKind {
    /// punctuation / operator, spelled
    Sym(&'static str),
    /// keyword, spelled
    Kw(&'static str),
    Ident(String),
    /// decimal literal; value None when it does not fit u32
    Int(Option<u32>),
    Hex(Option<u32>),
    /// character literal with its code
    Char(u32),
    /// comment text without the leading `//` and without the line end
    Comment(String),
    /// a character that starts no lexeme (or a malformed literal): lexically invalid text
    Invalid,
}

#[derive(Clone, Debug, PartialEq, Eq)]
pub struct RTok {
    pub kind: RKind,
    pub start: usize,
    /// end of the lexeme proper (a comment ends *before* its line end)
    pub end: usize,
}

pub const KEYWORDS: &[&str] = &[
    "if", "else", "while", "array", "of", "proc", "ref", "type", "var",
];
const SYMS2: &[&str] = &["<=", ">=", ":="];
const SYMS1: &[&str] = &[
    "(", ")", "[", "]", "{", "}", "=", "#", "<", ">", ":", ",", ";", "+", "-", "*", "/",
];

fn is_ws(b: u8) -> bool {
    b == b' ' || b == b'\t' || b == b'\n' || b == b'\r'
}
fn is_id_start(b: u8) -> bool {
    b.is_ascii_alphabetic() || b == b'_'
}
fn is_id_cont(b: u8) -> bool {
    b.is_ascii_alphanumeric() || b == b'_'
}

pub fn lex(text: &str) -> Vec<RTok> {
    let b = text.as_bytes();
    let mut i = 0;
    let mut out = vec![];
    while i < b.len() {
        if is_ws(b[i]) {
            i += 1;
            continue;
        }
        let start = i;
        // comment
        if b[i] == b'/' && i + 1 < b.len() && b[i + 1] == b'/' {
            let mut j = i + 2;
            while j < b.len() && b[j] != b'\n' {
                j += 1;
            }
            out.push(RTok {
                kind: RKind::Comment(text[i + 2..j].to_string()),
                start,
                end: j,
            });
            i = j;
            continue;
        }
        // two-character symbols first (longest match)
        if i + 1 < b.len() {
            if let Some(s) = SYMS2.iter().find(|s| s.as_bytes() == &b[i..i + 2]) {
                out.push(RTok { kind: RKind::Sym(s), start, end: i + 2 });
                i += 2;
                continue;
            }
        }
        if let Some(s) = SYMS1.iter().find(|s| s.as_bytes()[0] == b[i]) {
            out.push(RTok { kind: RKind::Sym(s), start, end: i + 1 });
            i += 1;
            continue;
        }
        if is_id_start(b[i]) {
            let mut j = i + 1;
            while j < b.len() && is_id_cont(b[j]) {
                j += 1;
            }
            let word = &text[i..j];
            let kind = match KEYWORDS.iter().find(|k| **k == word) {
                Some(k) => RKind::Kw(k),
                None => RKind::Ident(word.to_string()),
            };
            out.push(RTok { kind, start, end: j });
            i = j;
            continue;
        }
        if b[i].is_ascii_digit() {
            // hexadecimal?
            if b[i] == b'0' && i + 1 < b.len() && b[i + 1] == b'x' {
                let mut j = i + 2;
                while j < b.len() && b[j].is_ascii_hexdigit() {
                    j += 1;
                }
                if j > i + 2 {
                    let v = u32::from_str_radix(&text[i + 2..j], 16).ok();
                    out.push(RTok { kind: RKind::Hex(v), start, end: j });
                } else {
                    // `0x` without digits: malformed literal
                    out.push(RTok { kind: RKind::Invalid, start, end: j });
                }
                i = j;
                continue;
            }
            let mut j = i + 1;
            while j < b.len() && b[j].is_ascii_digit() {
                j += 1;
            }
            let v = text[i..j].parse::<u32>().ok();
            out.push(RTok { kind: RKind::Int(v), start, end: j });
            i = j;
            continue;
        }
        if b[i] == b'\'' {
            // '\n'
            if b.len() >= i + 4 && &b[i + 1..i + 4] == b"\\n'" {
                out.push(RTok { kind: RKind::Char(10), start, end: i + 4 });
                i += 4;
                continue;
            }
            // 'c' for one (possibly multi-byte) character c
            if let Some(c) = text[i + 1..].chars().next() {
                let j = i + 1 + c.len_utf8();
                if j < b.len() && b[j] == b'\'' && c.is_ascii() && c != '\n' {
                    out.push(RTok { kind: RKind::Char(c as u32), start, end: j + 1 });
                    i = j + 1;
                    continue;
                }
            }
            out.push(RTok { kind: RKind::Invalid, start, end: i + 1 });
            i += 1;
            continue;
        }
        // anything else: one invalid character
        let c = text[i..].chars().next().unwrap();
        out.push(RTok { kind: RKind::Invalid, start, end: i + c.len_utf8() });
        i += c.len_utf8();
    }
    out
}

pub fn is_valid(toks: &[RTok]) -> bool {
    toks.iter().all(|t| t.kind != RKind::Invalid)
}

#[cfg(test)]
mod tests {
    use super::*;
    #[test]
    fn basics() {
        let t = lex("if iff <= < = :=: 0x1F 12 'a' '\\n' // c\nx//e");
        let kinds: Vec<_> = t.iter().map(|t| t.kind.clone()).collect();
        assert_eq!(
            kinds,
            vec![
                RKind::Kw("if"),
                RKind::Ident("iff".into()),
                RKind::Sym("<="),
                RKind::Sym("<"),
                RKind::Sym("="),
                RKind::Sym(":="),
                RKind::Sym(":"),
                RKind::Hex(Some(31)),
                RKind::Int(Some(12)),
                RKind::Char(97),
                RKind::Char(10),
                RKind::Comment(" c".into()),
                RKind::Ident("x".into()),
                RKind::Comment("e".into()),
            ]
        );
    }
}
