//! `vtokio` — the substitution seam of the /verif harness.
//!
//! The unmodified sources of `lsp4spl` are compiled against this crate under the
//! dependency name `tokio`.  Everything is re-exported from the real tokio except the
//! concurrency / IO primitives the server uses; those are thin wrappers that
//!   * add a scheduling point (a yield to shuttle's controlled scheduler) in front of
//!     every channel operation and every stdin read / stdout write when the current
//!     thread runs a *controlled* execution, and
//!   * replace the process' stdin / stdout by in-memory pipes owned by the harness.
//! Outside a controlled execution the wrappers are transparent (real tokio runtime).
#![allow(clippy::all)]

pub use real::*;

use std::cell::{Cell, RefCell};
use std::collections::VecDeque;
use std::future::Future;
use std::pin::Pin;
use std::task::{Context, Poll, Waker};

// ---------------------------------------------------------------------------------------
// harness-side control surface
// ---------------------------------------------------------------------------------------
pub mod verif {
    use super::*;

    #[derive(Default)]
    pub(crate) struct Env {
        pub stdin: VecDeque<Vec<u8>>,
        pub stdin_eof: bool,
        pub stdin_waker: Option<Waker>,
        pub stdin_reads: usize,
        pub stdout: Vec<u8>,
        pub stdout_writes: usize,
        /// bytes the (modelled) client has drained; a write blocks while
        /// `stdout.len() - drained >= cap`
        pub stdout_cap: Option<usize>,
        pub stdout_drained: usize,
        pub stdout_waker: Option<Waker>,
        pub stdout_closed: bool,
        pub drain_waker: Option<Waker>,
        pub drain_stop: bool,
        pub chan_ops: usize,
    }

    thread_local! {
        pub(crate) static CONTROLLED: Cell<bool> = const { Cell::new(false) };
        pub(crate) static CLAMP: Cell<Option<usize>> = const { Cell::new(None) };
        pub(crate) static ENV: RefCell<Env> = RefCell::new(Env::default());
    }

    /// Marks the current thread as running (or not) a shuttle-controlled execution.
    pub fn set_controlled(on: bool) {
        CONTROLLED.with(|c| c.set(on));
    }
    pub fn controlled() -> bool {
        CONTROLLED.with(|c| c.get())
    }
    /// Clamp the capacity of every mpsc channel created afterwards on this thread.
    pub fn set_clamp(cap: Option<usize>) {
        CLAMP.with(|c| c.set(cap));
    }
    /// Reset the in-memory stdio of this thread.
    pub fn reset() {
        ENV.with(|e| *e.borrow_mut() = Env::default());
    }
    /// Make one more chunk available on stdin; one `poll_read` returns at most one chunk.
    pub fn stdin_push(chunk: Vec<u8>) {
        let w = ENV.with(|e| {
            let mut e = e.borrow_mut();
            if !chunk.is_empty() {
                e.stdin.push_back(chunk);
            }
            e.stdin_waker.take()
        });
        if let Some(w) = w {
            w.wake();
        }
    }
    pub fn stdin_close() {
        let w = ENV.with(|e| {
            let mut e = e.borrow_mut();
            e.stdin_eof = true;
            e.stdin_waker.take()
        });
        if let Some(w) = w {
            w.wake();
        }
    }
    pub fn stdin_pending_chunks() -> usize {
        ENV.with(|e| e.borrow().stdin.len())
    }
    pub fn stdout_snapshot() -> Vec<u8> {
        ENV.with(|e| e.borrow().stdout.clone())
    }
    pub fn stdout_len() -> usize {
        ENV.with(|e| e.borrow().stdout.len())
    }
    pub fn set_stdout_capacity(cap: Option<usize>) {
        ENV.with(|e| e.borrow_mut().stdout_cap = cap);
    }
    /// The modelled client consumes everything written so far.
    pub fn stdout_drain_all() {
        let w = ENV.with(|e| {
            let mut e = e.borrow_mut();
            e.stdout_drained = e.stdout.len();
            e.stdout_waker.take()
        });
        if let Some(w) = w {
            w.wake();
        }
    }
    /// Future of the modelled client: resolves to `true` as soon as undrained output exists,
    /// to `false` once `stdout_drain_stop` was called. Blocking (no spinning).
    pub fn stdout_wait_data() -> impl Future<Output = bool> {
        struct W;
        impl Future for W {
            type Output = bool;
            fn poll(self: Pin<&mut Self>, cx: &mut Context<'_>) -> Poll<bool> {
                ENV.with(|e| {
                    let mut e = e.borrow_mut();
                    if e.stdout.len() > e.stdout_drained {
                        Poll::Ready(true)
                    } else if e.drain_stop {
                        Poll::Ready(false)
                    } else {
                        e.drain_waker = Some(cx.waker().clone());
                        Poll::Pending
                    }
                })
            }
        }
        W
    }
    pub fn stdout_drain_stop() {
        let w = ENV.with(|e| {
            let mut e = e.borrow_mut();
            e.drain_stop = true;
            e.drain_waker.take()
        });
        if let Some(w) = w {
            w.wake();
        }
    }
    pub fn counters() -> (usize, usize, usize) {
        ENV.with(|e| {
            let e = e.borrow();
            (e.chan_ops, e.stdin_reads, e.stdout_writes)
        })
    }

    /// A scheduling point: yields to shuttle's scheduler in a controlled execution,
    /// no-op otherwise.
    pub async fn vyield() {
        if controlled() {
            shuttle::future::yield_now().await;
        }
    }
    pub(crate) fn count_chan_op() {
        ENV.with(|e| e.borrow_mut().chan_ops += 1);
    }
}

// ---------------------------------------------------------------------------------------
// spawn
// ---------------------------------------------------------------------------------------
pub enum JoinHandle<T> {
    Real(real::task::JoinHandle<T>),
    Shuttle(shuttle::future::JoinHandle<T>),
}

#[derive(Debug)]
pub struct JoinError(pub String);
impl std::fmt::Display for JoinError {
    fn fmt(&self, f: &mut std::fmt::Formatter<'_>) -> std::fmt::Result {
        write!(f, "task failed: {}", self.0)
    }
}
impl std::error::Error for JoinError {}

impl<T> Future for JoinHandle<T> {
    type Output = Result<T, JoinError>;
    fn poll(self: Pin<&mut Self>, cx: &mut Context<'_>) -> Poll<Self::Output> {
        match self.get_mut() {
            JoinHandle::Real(h) => Pin::new(h).poll(cx).map_err(|e| JoinError(e.to_string())),
            JoinHandle::Shuttle(h) => Pin::new(h).poll(cx).map_err(|e| JoinError(e.to_string())),
        }
    }
}

#[track_caller]
pub fn spawn<F>(future: F) -> JoinHandle<F::Output>
where
    F: Future + Send + 'static,
    F::Output: Send + 'static,
{
    if verif::controlled() {
        JoinHandle::Shuttle(shuttle::future::spawn(future))
    } else {
        JoinHandle::Real(real::spawn(future))
    }
}

pub mod task {
    pub use super::{spawn, JoinError, JoinHandle};
    pub use real::task::{spawn_blocking, yield_now};
}

// ---------------------------------------------------------------------------------------
// sync::{mpsc, oneshot}
// ---------------------------------------------------------------------------------------
pub mod sync {
    pub use real::sync::*;

    pub mod mpsc {
        use crate::verif;
        pub use real::sync::mpsc::error;
        // the rest of the module as it is (no scheduling points of their own): code under test
        // that starts to use them still builds, its channel operations are then not explored
        pub use real::sync::mpsc::{unbounded_channel, UnboundedReceiver, UnboundedSender};
        use real::sync::mpsc as rm;

        pub struct Sender<T>(rm::Sender<T>);
        pub struct Receiver<T>(rm::Receiver<T>);

        impl<T> Clone for Sender<T> {
            fn clone(&self) -> Self {
                Sender(self.0.clone())
            }
        }
        impl<T> std::fmt::Debug for Sender<T> {
            fn fmt(&self, f: &mut std::fmt::Formatter<'_>) -> std::fmt::Result {
                write!(f, "Sender")
            }
        }
        impl<T> std::fmt::Debug for Receiver<T> {
            fn fmt(&self, f: &mut std::fmt::Formatter<'_>) -> std::fmt::Result {
                write!(f, "Receiver")
            }
        }

        pub fn channel<T>(buffer: usize) -> (Sender<T>, Receiver<T>) {
            let cap = match verif::CLAMP.with(|c| c.get()) {
                Some(c) => buffer.min(c).max(1),
                None => buffer,
            };
            let (tx, rx) = rm::channel(cap);
            (Sender(tx), Receiver(rx))
        }

        impl<T> Sender<T> {
            pub async fn send(&self, value: T) -> Result<(), error::SendError<T>> {
                verif::count_chan_op();
                verif::vyield().await;
                self.0.send(value).await
            }
            pub fn try_send(&self, value: T) -> Result<(), error::TrySendError<T>> {
                verif::count_chan_op();
                self.0.try_send(value)
            }
            pub async fn closed(&self) {
                verif::vyield().await;
                self.0.closed().await
            }
            pub fn is_closed(&self) -> bool {
                self.0.is_closed()
            }
            pub fn capacity(&self) -> usize {
                self.0.capacity()
            }
            pub fn max_capacity(&self) -> usize {
                self.0.max_capacity()
            }
            pub fn blocking_send(&self, value: T) -> Result<(), error::SendError<T>> {
                self.0.blocking_send(value)
            }
            pub fn same_channel(&self, other: &Self) -> bool {
                self.0.same_channel(&other.0)
            }
            pub async fn send_timeout(&self, value: T, timeout: std::time::Duration) -> Result<(), error::SendTimeoutError<T>> {
                verif::count_chan_op();
                verif::vyield().await;
                self.0.send_timeout(value, timeout).await
            }
        }

        impl<T> Receiver<T> {
            pub async fn recv(&mut self) -> Option<T> {
                verif::count_chan_op();
                verif::vyield().await;
                self.0.recv().await
            }
            pub fn try_recv(&mut self) -> Result<T, error::TryRecvError> {
                verif::count_chan_op();
                self.0.try_recv()
            }
            pub fn close(&mut self) {
                self.0.close()
            }
            pub fn blocking_recv(&mut self) -> Option<T> {
                self.0.blocking_recv()
            }
            pub fn is_empty(&self) -> bool {
                self.0.is_empty()
            }
            pub fn len(&self) -> usize {
                self.0.len()
            }
            pub fn is_closed(&self) -> bool {
                self.0.is_closed()
            }
            pub fn capacity(&self) -> usize {
                self.0.capacity()
            }
            pub fn max_capacity(&self) -> usize {
                self.0.max_capacity()
            }
            pub async fn recv_many(&mut self, buffer: &mut Vec<T>, limit: usize) -> usize {
                verif::count_chan_op();
                verif::vyield().await;
                self.0.recv_many(buffer, limit).await
            }
            pub fn poll_recv(&mut self, cx: &mut std::task::Context<'_>) -> std::task::Poll<Option<T>> {
                self.0.poll_recv(cx)
            }
        }
    }

    pub mod oneshot {
        use crate::verif;
        pub use real::sync::oneshot::error;
        use real::sync::oneshot as ro;
        use std::future::Future;
        use std::pin::Pin;
        use std::task::{Context, Poll};

        #[derive(Debug)]
        pub struct Sender<T>(ro::Sender<T>);
        pub struct Receiver<T> {
            inner: ro::Receiver<T>,
            yielded: bool,
        }
        impl<T> std::fmt::Debug for Receiver<T> {
            fn fmt(&self, f: &mut std::fmt::Formatter<'_>) -> std::fmt::Result {
                write!(f, "oneshot::Receiver")
            }
        }

        pub fn channel<T>() -> (Sender<T>, Receiver<T>) {
            let (tx, rx) = ro::channel();
            (
                Sender(tx),
                Receiver {
                    inner: rx,
                    yielded: false,
                },
            )
        }

        impl<T> Sender<T> {
            /// Synchronous in tokio; a send completes the receiver, the scheduling point
            /// sits in front of the receiver's first poll.
            pub fn send(self, t: T) -> Result<(), T> {
                verif::count_chan_op();
                self.0.send(t)
            }
            pub fn is_closed(&self) -> bool {
                self.0.is_closed()
            }
            pub async fn closed(&mut self) {
                self.0.closed().await
            }
        }

        impl<T> Receiver<T> {
            pub fn try_recv(&mut self) -> Result<T, error::TryRecvError> {
                self.inner.try_recv()
            }
            pub fn close(&mut self) {
                self.inner.close()
            }
            pub fn blocking_recv(self) -> Result<T, error::RecvError> {
                self.inner.blocking_recv()
            }
        }

        impl<T> Future for Receiver<T> {
            type Output = Result<T, error::RecvError>;
            fn poll(self: Pin<&mut Self>, cx: &mut Context<'_>) -> Poll<Self::Output> {
                let this = self.get_mut();
                if verif::controlled() && !this.yielded {
                    this.yielded = true;
                    verif::count_chan_op();
                    cx.waker().wake_by_ref();
                    return Poll::Pending;
                }
                Pin::new(&mut this.inner).poll(cx)
            }
        }
    }
}

// ---------------------------------------------------------------------------------------
// io::{stdin, stdout}
// ---------------------------------------------------------------------------------------
pub mod io {
    use crate::verif::{self, ENV};
    pub use real::io::*;
    use std::pin::Pin;
    use std::task::{Context, Poll};

    #[derive(Debug)]
    pub struct Stdin {
        yielded: bool,
    }
    #[derive(Debug)]
    pub struct Stdout {
        yielded: bool,
    }

    pub fn stdin() -> Stdin {
        Stdin { yielded: false }
    }
    pub fn stdout() -> Stdout {
        Stdout { yielded: false }
    }

    impl AsyncRead for Stdin {
        fn poll_read(
            self: Pin<&mut Self>,
            cx: &mut Context<'_>,
            buf: &mut ReadBuf<'_>,
        ) -> Poll<std::io::Result<()>> {
            let this = self.get_mut();
            if verif::controlled() && !this.yielded {
                // scheduling point in front of every read
                this.yielded = true;
                cx.waker().wake_by_ref();
                return Poll::Pending;
            }
            ENV.with(|e| {
                let mut e = e.borrow_mut();
                if let Some(mut chunk) = e.stdin.pop_front() {
                    let n = chunk.len().min(buf.remaining());
                    buf.put_slice(&chunk[..n]);
                    if n < chunk.len() {
                        chunk.drain(..n);
                        e.stdin.push_front(chunk);
                    }
                    e.stdin_reads += 1;
                    this.yielded = false;
                    Poll::Ready(Ok(()))
                } else if e.stdin_eof {
                    e.stdin_reads += 1;
                    this.yielded = false;
                    Poll::Ready(Ok(()))
                } else {
                    e.stdin_waker = Some(cx.waker().clone());
                    Poll::Pending
                }
            })
        }
    }

    impl AsyncWrite for Stdout {
        fn poll_write(
            self: Pin<&mut Self>,
            cx: &mut Context<'_>,
            buf: &[u8],
        ) -> Poll<std::io::Result<usize>> {
            let this = self.get_mut();
            if verif::controlled() && !this.yielded {
                this.yielded = true;
                cx.waker().wake_by_ref();
                return Poll::Pending;
            }
            ENV.with(|e| {
                let mut e = e.borrow_mut();
                if e.stdout_closed {
                    return Poll::Ready(Err(std::io::Error::new(
                        std::io::ErrorKind::BrokenPipe,
                        "stdout closed",
                    )));
                }
                if let Some(cap) = e.stdout_cap {
                    let pending = e.stdout.len() - e.stdout_drained;
                    if pending >= cap {
                        e.stdout_waker = Some(cx.waker().clone());
                        return Poll::Pending;
                    }
                }
                e.stdout.extend_from_slice(buf);
                e.stdout_writes += 1;
                this.yielded = false;
                if let Some(w) = e.drain_waker.take() {
                    w.wake();
                }
                Poll::Ready(Ok(buf.len()))
            })
        }
        fn poll_flush(self: Pin<&mut Self>, _: &mut Context<'_>) -> Poll<std::io::Result<()>> {
            Poll::Ready(Ok(()))
        }
        fn poll_shutdown(self: Pin<&mut Self>, _: &mut Context<'_>) -> Poll<std::io::Result<()>> {
            Poll::Ready(Ok(()))
        }
    }
}
