#!/usr/bin/env python3
"""Regenerates /verif/MANIFEST.json from the table below (claimed checks + not_applicable)."""
import json, os
V = os.path.dirname(os.path.dirname(os.path.abspath(__file__)))
E_INPUT = "bounded-exhaustive enumeration of inputs over the real code against a reference model"
CHECKS = {
 "C01": dict(technique="explicit-state exploration of edit histories over the real incremental analysis (inductive single-step sweep from every fresh state, two-edit batches, BFS with the implementation state carried forward); differential oracle fresh analysis",
   text="from fresh(t) for every text of the bounded families (character soups, token soups, generated programs, valid-to-valid token edits on multi-declaration programs) every edit of the family's alphabet is applied through AnalyzedSource::update and tokens, tree, symbol table and errors() are compared with AnalyzedSource::new(final text) after every step; at protocol level the diagnostics published after didChange and the answers of all 13 request kinds after the edits equal those of a freshly opened document; exact known-finding membership by input hash, any other diverging input is a violation",
   note="AnalyzedSource::new is the specification; histories that leave the bounded text set are not covered; known divergences of the pinned tree are listed exactly in known_findings/C01.hashes", ref="4/C01"),
 "C02": dict(technique="bounded-exhaustive enumeration of documents x requests x positions and of edit histories, executed on the real server loop (in process, tokio shim)",
   text="every document of the bounded families (token soups <=3/4 tokens, character soups <=3/4 chars incl. multi-byte, generated valid programs in 6 layouts, all single-token mutations of generated programs, nesting ladders <=32, edit histories) is opened in the unmodified LanguageServer::run(); all 13 request methods at every (line, UTF-16 column) incl. overshooting positions must be answered with exactly one well-formed result response in order, without panic or Err",
   note="in-process run() with in-memory stdio; a non-terminating case is reported by a watchdog as a violation (hang); nesting ladders and a fixed sub-family are replayed against the release binary (liveness with the real 2 MiB worker stacks, answers identical to the in-process run)", ref="4/C02"),
 "C03": dict(technique="bounded-exhaustive enumeration of programs classified by an independent reference checker (well-typed / exactly one rule violated) x layouts x comment placements through the real analysis and publishDiagnostics",
   text="every program of the well-typed family gets no diagnostic; every program of the expression/statement/fault-pool/declaration-fault families that the reference checker classifies as violating exactly one rule gets >=1 diagnostic of that rule inside the byte span of the offending construct and none of another rule (all 27 rule kinds occur); ranges lie inside the document; published diagnostics equal errors() converted by the LSP text model",
   note="reference checker refsem.rs; programs violating several rules are skipped and counted", ref="4/C03"),
 "C04": dict(technique="bounded-exhaustive enumeration of grammar derivations x layouts x comment placements, parsed by the real parser and compared with the generating derivation",
   text="all derivations of the SPL grammar up to the token bounds per focus family (expressions, statements, type expressions, whole programs) in typed contexts x 6 layouts x a comment in every gap: projection of the parsed tree equals the derivation, every node range equals its token span, no syntax diagnostic",
   note="expected tree known by construction from the generator (no reference parser); bounded by token counts and pools", ref="4/C04"),
 "C08": dict(technique="explicit-state exploration of didChange histories against the real document broker with the LSP text model as reference (all events over a bounded text/position/replacement alphabet, batches, BFS), plus position round trip through the real server loop",
   text="all initial texts over {a, 2/3/4-byte chars, CR, LF, ;} up to length 3/4 x every ordered pair of probe positions (all UTF-16 columns, overshooting columns and lines) x 5 replacements and range-less replacements, notifications with 1-3 events, BFS over histories: after every notification the broker's text equals the client text of the LSP model; prepareRename ranges of every identifier of all strings over a 10-symbol alphabet address the same token when sent back",
   note="reference model lsptext.rs; positions inside a surrogate pair are excluded (undefined in LSP); broker driven through its DocumentRequest channel", ref="4/C08"),
 "C09": dict(technique="bounded-exhaustive enumeration of programs x layouts x comment placements x formatting options through the real formatting handler, re-lexed by an independent lexer",
   text="for every generated syntactically valid program text and option value: answer is null or exactly one TextEdit over exactly the whole document (LSP text model), the non-comment token sequence (kinds and literal values, independent lexer) is unchanged, and re-opening the formatted text publishes the same diagnostics",
   note="independent lexer reflex.rs and text model lsptext.rs; diagnostics compared as (message, non-comment token span)", ref="4/C09"),
 "C10": dict(technique="bounded-exhaustive enumeration of comment placements (every token gap) on generated programs through the real formatting handler; comment sequence compared by an independent lexer",
   text="a uniquely numbered comment line in every single gap of the focus declaration of every generated program (every gap of the whole text for every 31st), six comment text classes, and comments in all gaps at once: the comment sequence of the formatted text equals the source's; failures are classified by comment-ownership class (generator vocabulary) and only classes that fail for every member are listed as known findings",
   note="independent lexer reflex.rs; 9 ownership classes lose comments on the pinned tree (KNOWN_FINDINGS.txt), the other 14 classes are guarded", ref="4/C10"),
 "C11": dict(technique="bounded-exhaustive enumeration of programs x layouts x formatting options through the real formatting handler; relational oracles (format twice, format two layouts, option independence) and reference nesting levels by construction",
   text="for every generated program: second formatting returns null, all 6 layouts format to one text, each line is indented k units of the requested unit with k = reference nesting level of its first token, output modulo indentation is option independent, null exactly when unchanged",
   note="nesting levels by construction from the generator; else-if chains stay on the level of the first if", ref="4/C11"),
 "C12": dict(technique="bounded-exhaustive enumeration of well-typed programs x layouts x identifier occurrences x cursor columns through the real goto handlers; expected targets from reference scoping rules on the generating tree",
   text="for every identifier occurrence and every column inside it, in every declaration order of the binding scenarios (shadowing, alias types, anonymous array types, builtins) and every error-free member of the expression/statement/type families: declaration/definition/implementation/typeDefinition return exactly the range of the bound declaring name or null; null on non-identifiers and white space",
   note="bindings from refsem.rs (independent scoping / name-equivalence implementation); in-process server loop", ref="4/C12"),
 "C13": dict(technique="bounded-exhaustive enumeration of well-typed programs x layouts x identifier occurrences through the real references/rename/prepareRename handlers; expected occurrence sets from reference scoping rules; rename applied, re-opened, re-queried and reverted",
   text="for every identifier occurrence: references = exactly the other occurrences of the binding, rename = exactly one edit per occurrence, prepareRename = the identifier's range iff rename is offered; for every declared binding the rename to a fresh name is applied with an independent edit model, the result re-opened (no diagnostics), the occurrence set re-queried, and renaming back restores the text",
   note="bindings from refsem.rs; predefined entities and `main` are excluded from the apply/re-query phase (renaming them legitimately changes diagnostics)", ref="4/C13"),
 "C14": dict(technique="bounded-exhaustive enumeration of well-typed programs x layouts x identifier columns (hover) and x every byte position inside call argument lists (signature help) through the real handlers; expected signatures rendered from the reference semantics",
   text="hover at every column of every identifier occurrence: range is the identifier, text contains in order kind/name/ref marker/resolved type of the bound declaration and its doc comment; signature help at every byte position between the parentheses of every call: label names the callee, one entry per declared parameter (name, ref marker, resolved type), active parameter = number of commas before the cursor",
   note="signatures and types from refsem.rs; structured containment instead of byte equality of markdown", ref="4/C14"),
 "C15": dict(technique="bounded-exhaustive enumeration of documents through the real semanticTokens/full handler with an independent delta decoder; expected classification from lexical class and reference bindings",
   text="classification: for every well-typed program x layout/comment placement the decoded token list equals the list derived from the generator (keywords, numbers, comments by lexical class; identifiers by binding kind; declaration modifier exactly on declaring occurrences); well-formedness: for every token soup (<=3/4 tokens) and character soup (<=3/4 chars incl. multi-byte) positions strictly increase, tokens do not overlap and each coincides with a lexical token, lengths in UTF-16 units",
   note="independent decoder, reflex.rs and refsem.rs; on lexically invalid text the implementation's own token boundaries are accepted (tiling is C06's job)", ref="4/C15"),
 "C16": dict(technique="bounded-exhaustive enumeration of well-typed programs x layouts x every byte position of the classified white-space gaps through the real completion handler; expected label sets from the reference scopes",
   text="at every position of every gap that is a statement start (incl. before closing braces and brace-less branches), follows := or the ( of a call/if/while, follows : in a parameter/variable declaration, or lies between global declarations: VARIABLE labels = parameters+locals of the enclosing procedure, FUNCTION labels = declared+predefined procedures (statement starts), STRUCT labels = declared types + int (type positions), only declaration starters at top level",
   note="scopes from refsem.rs; positions directly behind a token (cursor touching it) are not gap positions; keyword/snippet items ignored except at top level", ref="4/C16"),
 "C17": dict(technique="bounded-exhaustive enumeration of programs x layouts x comment placements through the real foldingRange handler; expected folds by construction",
   text="one fold per procedure, in source order, from the line of `proc` to the line of its last token for every generated program x 7 layouts (incl. CRLF and lone CR) x comment-gap variant, and per program a session that opens, replaces, closes and re-opens the document with a fold request after each step; well-formedness (start<=end, inside document, non-overlapping) for every token soup up to 3/4 tokens",
   note="line numbers from the independent text model lsptext.rs", ref="4/C17"),
 "C05": dict(technique="bounded-exhaustive enumeration of single-token damages (delete / insert / replace over the token alphabet) on every token of every declaration of generated multi-declaration programs; differential oracle against the undamaged parse",
   text="for every program (2..4 declarations of a pool, every type-correct order), every declaration as the damaged one, every token except the declaration keyword and every damage: sub-trees of all other declarations are unchanged (offset shifted), their symbol-table entries are unchanged up to the shift, every syntax diagnostic lies inside the damaged declaration's byte span, goto declaration inside undamaged declarations answers as before",
   note="differential: the undamaged parse of the same implementation is the reference; damages that introduce the name of another declaration are exempt from the table/navigation comparison for that declaration (redeclaration semantics)", ref="4/C05"),
 "C06": dict(technique="bounded-exhaustive input enumeration of the real lexer against an independent reference lexer",
   text="every string over a 15/24-symbol character alphabet up to length 4/6 and every sequence of up to 3/4 lexemes x 5 separators: tiling invariant on all, kinds/values/ranges equal to the reference lexer on all lexically valid ones",
   note="trusted: reference lexer reflex.rs; bounded by alphabet and length", ref="4/C06"),
 "C07": dict(technique="explicit-state exploration of edit histories over the real incremental lexer (inductive single-step sweep + BFS), differential oracle",
   text="all (text, byte range, replacement) triples over the alphabets up to the bounds, and BFS over edit histories feeding update results forward; in every state tokens equal a fresh lex and the reported window is truthful",
   note="oracle lexer::lex is itself checked by C06; bounded by alphabet and length", ref="4/C07"),
 "C18": dict(technique="exhaustive enumeration of client message histories against the release binary (lock-step client; every byte prefix + end of input) with a lifecycle automaton as reference, plus stateless preemption-bounded exploration of all schedules of the real run() (tokio shim + shuttle, own bounded-DFS scheduler)",
   text="all histories over the 9-letter message alphabet up to length 4/5 against the built binary, lock-step and fully pipelined: one response per request, ids and order, prescribed result/error code per phase, exit status 0 after shutdown / 1 otherwise, termination after end of input; every (quick: every 6th + all frame boundaries) byte prefix of all sessions up to length 2/3 followed by end of input: prompt exit, output a well-formed prefix of the expected response stream; in process: every history that does not reach process::exit(1), pipelined, all schedules with <= 2/3 preemptions (one less for the longest histories), real and clamped channel capacities: no deadlock, run() returns Ok, all responses present when run() returns",
   note="lifecycle automaton lifecycle.rs is nondeterministic where the statement is silent; std::process::exit cannot be intercepted in process, hence the split; children run with TOKIO_WORKER_THREADS=4 (still the multi-threaded runtime)", ref="4/C18"),
 "C19": dict(technique="deviation-bounded exhaustive enumeration of read segmentations (0, 1, 2 short reads; one byte per read) of whole sessions through the real FramedRead/LSCodec inside run(), Pending reads as scheduler choices under the bounded-DFS scheduler, differential oracle against the unsplit run; two-way splits replayed against the release binary",
   text="six sessions (2..5-digit body lengths, non-ASCII document and non-ASCII server output, a frame larger than the initial read buffer, many small frames): every two-way split at every byte, three-way splits (all pairs for the minimal session, windowed otherwise), one byte per read: responses in order and notifications in order equal the unsplit run, every emitted frame has an exact Content-Length and a JSON body; minimal session: every two-way split under all schedules with <= 1/2 preemptions with a client task delivering the chunks; conformance: two-way splits against the binary with pipe-drain synchronised writes",
   note="a read returns at most one written chunk (shim stdin); OS pipe behaviour trusted in the process runs", ref="4/C19"),
 "C20": dict(technique="stateless exploration of all schedules (preemption-bounded DFS for short scenarios, delay-bounded DFS for long bursts) of the real run() with its reader/broker/responder tasks (tokio shim + shuttle), for every scenario of a bounded operation alphabet; sequential specification with a differential answer oracle; replay against the release binary",
   text="all scenarios of <= 3/4 operations over {open, change, close, request} x URIs (two differing only in scheme) x texts x request kinds, delivered fully pipelined: under every schedule with <= 2/3 preemptions (one less for the longest scenarios), with the real channel capacities and capacities clamped to 1 and 2, with and without the diagnostics capability: responses in request order and equal to the implementation's fresh single-document answer for the model text (read-your-writes, isolation, closed documents forgotten), last publishDiagnostics per URI equals the diagnostics of the final text, none without capability, no deadlock; bursts of 40..200 change+request pairs under delay-bounded schedules with bounded stdout; scenarios and bursts of up to 250 pairs replayed against the binary",
   note="interleavings at channel/stdio operations (complete while tasks share only channels - audited on every run); capacity clamping abstracts the two channel constants; long bursts are delay-bounded, not preemption-bounded (the non-preemptive choices alone are exponentially many)", ref="4/C20"),
}
ALL = ["C%02d" % i for i in range(1, 21)]
m = {
 "version": 1,
 "setup_cmd": "bin/setup",
 "hooks": {
   "guard": "none",
   "enable": "no source hooks: /repo/lsp4spl/src is copied unmodified into harness/lspcore at check time and compiled against the tokio shim harness/shim (dependency substitution tokio -> vtokio); spl_frontend is a path dependency on /repo/spl_frontend",
   "baseline_off_cmd": "cd /repo && cargo test --workspace --no-fail-fast --offline",
   "source_commits": [],
   "add_only": True,
 },
 "engines": [{"name": "splmc", "path": "harness/splmc", "serves_properties": sorted(CHECKS),
              "kind_free_text": "bounded-exhaustive explicit enumeration of inputs / edit histories / schedules over the real code, with reference models (model checking of the implementation)"}],
 "checks": [],
 "not_applicable": [],
 "notes": "Known findings and repaired defects: KNOWN_FINDINGS.txt. Design: DESIGN.md.",
}
for cid in sorted(CHECKS):
    c = CHECKS[cid]
    m["checks"].append({
        "property_id": cid,
        "quick_cmd": f"bin/check {cid} quick",
        "thorough_cmd": f"bin/check {cid} thorough",
        "evidence_file": f"evidence/{cid}.json",
        "replay_cmd_template": "bin/check replay {path}",
        "engine": "splmc",
        "technique": c["technique"],
        "level_claimed": {"category": "model_checking", "text": c["text"], "design_ref": "DESIGN.md " + c["ref"]},
        "level_note": c["note"],
    })
for cid in ALL:
    if cid not in CHECKS:
        m["not_applicable"].append({"property_id": cid, "reason": "check not built yet in this session (planned, see DESIGN.md section 4); model checking is applicable"})
json.dump(m, open(os.path.join(V, "MANIFEST.json"), "w"), indent=1)
print("claimed:", sorted(CHECKS))
